"""regenerate MANIFEST.json from the property modules (run from /verif)"""
import importlib
import json
import os
import sys

sys.path.insert(0, os.path.dirname(os.path.dirname(os.path.abspath(__file__))))
from ovf import env  # noqa: E402

env.setup_path()
PY = "/venv/bin/python -B"
props = [json.loads(l) for l in open(os.path.join(env.VERIF, "properties.jsonl"))]
checks, na = [], []
NOTES = {}
for p in props:
    pid = p["id"]
    try:
        mod = importlib.import_module("ovf.props.%s" % pid.lower())
    except ImportError:
        na.append(dict(property_id=pid, reason="check not built yet (see DESIGN.md section 4 for the plan)"))
        continue
    checks.append(dict(
        property_id=pid,
        quick_cmd="%s -m ovf.check %s --tier quick" % (PY, pid),
        thorough_cmd="%s -m ovf.check %s --tier thorough" % (PY, pid),
        evidence_file="/verif/evidence/%s.json" % pid,
        replay_cmd_template="%s -m ovf.check --replay {path}" % PY,
        engine="ovf",
        level_claimed=dict(category=mod.LEVEL, text=getattr(mod, "LEVEL_TEXT", None) or (
            "Held on the executions explored: the real conductor/composer/inspector is run under a provider simulator "
            "over the generated classes named in the evidence file's `rule`, and the monitors decide each execution; "
            "exploration (seeded, exhaustive within the stated small bounds) is the level runtime monitoring can give."),
            design_ref="DESIGN.md section 4, %s" % pid),
        level_note=getattr(mod, "LEVEL_NOTE", None) or (
            "trusted: the provider simulator's protocol (DESIGN.md 1.1), the independent reference models in "
            "ovf/mon and ovf/gen (condition evaluator, ledgers, oracles), CPython; nothing outside the generated "
            "classes is claimed"),
        technique=mod.TECHNIQUE,
    ))
man = dict(
    version=1,
    setup_cmd="%s -m ovf.env" % PY,
    hooks=dict(guard="ORQUESTA_VERIF",
               enable="no instrumentation lives in /repo: monitors wrap the public API at the boundary from the harness "
                      "(ovf/sim/provider.py) and wrap module attributes at run time (ovf/mon/purity.py); checks import "
                      "orquesta from /repo's working tree (asserted in ovf/env.py) with ORQUESTA_VERIF=1 set",
               baseline_off_cmd="cd /repo && /venv/bin/python -m pytest -q -p no:cacheprovider --timeout=900",
               source_commits=[], add_only=True),
    engines=[dict(name="ovf", path="/verif/ovf", serves_properties=[c["property_id"] for c in checks],
                  kind_free_text="runtime monitoring: provider simulator driving the real conductor + boundary monitors "
                                 "(ledgers, oracles, invariants) + twin replays; pure Python, no third-party tooling")],
    checks=checks,
    notes="All checks honour VERIF_SEED and VERIF_TIER, rebuild nothing (pure Python, imported from /repo's working tree "
          "at run time) and rewrite evidence/<id>.json. Exit 2 = inconclusive (watchdog or monitor reach counter zero). "
          "Known findings: known_findings.json; witnesses: replays/known/.",
    not_applicable=na,
)
with open(os.path.join(env.VERIF, "MANIFEST.json"), "w") as f:
    json.dump(man, f, indent=1)
try:
    import jsonschema
    jsonschema.validate(man, json.load(open("/root/.vp/MANIFEST.schema.json")))
    print("MANIFEST.json valid:", len(checks), "checks,", len(na), "not applicable")
except ImportError:
    print("written (jsonschema not available)")
