"""writes the prompts given to the independent sub-agents that produce seeded property-breaking changes
(DESIGN sections 11-13). The sub-agent sees the property text, its own scratch worktree and nothing of /verif.
usage: mutprompt.py <base dir, e.g. /tmp/mut3> [4|5]"""
import json
import sys

T = '''You are helping test a verification tool by producing a *seeded defect* (a deliberately wrong change) in the Python library StackStorm/orquesta (a graph-based workflow engine). You work ONLY in your own scratch git worktree at {wt} (a checkout of the library; the package is the `orquesta/` directory there). Do not read or write anything under /repo or /verif, and do not look at other directories under {base}. Use the interpreter /venv/bin/python; run things with the worktree as current directory (then `import orquesta` resolves to the worktree copy - verify with `python -c "import orquesta; print(orquesta.__file__)"`). There is no network.

The property to break:

  Title: {title}
  Statement: {statement}
  Quantified over: {quant}
  Code most relevant to it: {files}

Your task: make a small source change to the library (under {wt}/orquesta, NOT to its tests) that makes this property FALSE for some executions, while
  (1) the library still imports and the existing test suite still passes completely: `cd {wt} && /venv/bin/python -m pytest -q -p no:cacheprovider --timeout=900 2>&1 | tail -3` must report 865 passed (run it on the final change and paste the summary line in your report);
  (2) the change looks like a plausible programming mistake or well-meant refactoring/optimisation a real contributor could make (not sabotage such as `if task_id == "foo"`, no randomness, no environment checks);
  (3) the violation needs something *specific* to manifest - a particular interleaving/order of completion reports, a control request or crash/restore at a particular point, a multi-step sequence of operations, an unusual input or definition shape, or two cooperating sites that each look fine alone - so that ordinary simple use (and the existing tests) would not expose it at once.

This library has already been hardened against the most obvious mistakes in two earlier rounds, so prefer a change in a less travelled corner of the code that bears on the property (a different function, state-machine row, helper, data structure or module than the first one you think of), and prefer a mechanism in which two features interact (for example with-items and retry, rerun and joins, pause and retry delay, cycles and split routes, task-level pause/cancel reports from the provider, nested expressions in unusual positions, serialisation of unusual values).

Also write a demonstration: a small stand-alone Python program `demo.py` (drive the public API directly: `orquesta.specs.native.v1.models.WorkflowSpec` / `orquesta.conducting.WorkflowConductor` with `request_workflow_status`, `get_next_tasks`, `update_task_state(task_id, route, events.ActionExecutionEvent(status, result=...))`, `render_workflow_output`, `serialize`/`deserialize`, `request_workflow_rerun`, or the composer / inspector / expression evaluators / parameter parser as appropriate; look at orquesta/tests/unit/conducting/*.py and orquesta/tests/unit/base.py for how a provider drives the conductor: every task returned by get_next_tasks is acknowledged with a `running` event before its completion is reported) that exits 0 and prints PASS on the ORIGINAL code and exits 1 and prints FAIL (with a short explanation of what was observed vs. expected by the property) on the CHANGED code. Check both with `git diff > p.diff; git checkout -- .; ...; git apply p.diff` in the worktree (do NOT use `git stash`: the stash is shared between worktrees). The demo must fail because the property as stated above is violated, not because of some unrelated difference.

Deliverables, all written to {out}/ (create files there; a second, mechanistically different change that also satisfies everything above is welcome: put it in {out}/b/ with the same three files):
  - patch.diff : output of `git diff` in the worktree for the change (must apply with `git apply` to a clean checkout of the same commit);
  - demo.py    : the demonstration (run as `cd <checkout> && /venv/bin/python {out}/demo.py`; it must import orquesta from the current directory);
  - NOTES.md   : 5-15 lines: what the change does, why the test suite does not notice, exactly what is needed for the violation to manifest (shape of definition, order of events, where the request/crash lands, which input), and the test-suite summary line you observed with the change applied, plus the demo output before/after.
Leave the worktree clean (`git checkout -- .`, remove stray files and __pycache__ you created outside it) when you are done; the patch file is what is kept. In your final message give a 5-line summary.

Practical notes: (1) a script run by path (`python /some/dir/demo.py`) puts the script's directory, not the current directory, first on sys.path and would import an installed copy of orquesta - so start demo.py with `import os, sys; sys.path.insert(0, os.getcwd())` and assert `orquesta.__file__` is under the current directory; run your own scratch scripts the same way. (2) The full test suite takes about 15 s; run at most one pytest process at a time. (3) The suite must report exactly `865 passed`.
'''

HINT4 = '''This library has already been hardened against the most obvious mistakes in three earlier rounds, most of which changed the two hot functions `update_task_state` and `get_next_tasks` of orquesta/conducting.py. Do NOT put your change there. Prefer the other places that bear on the property: a row or a contextualisation helper of the state machines (orquesta/machines.py), the graph and composer (orquesta/graphing.py, orquesta/composers/native.py), the spec models (rendering, context finalisation, inspection in orquesta/specs/), the expression evaluators and the workflow functions available inside expressions (orquesta/expressions/), the utilities (orquesta/utils/: dictionary merge, jsonify, context, parameters), the smaller helpers of WorkflowState / WorkflowConductor (status predicates, staged-task bookkeeping, route evaluation, terminal context, serialisation, rerun helpers), or statuses/events constants. A mechanism that only shows after several steps (for example a persist/restore in the middle, a second loop iteration, a rerun after a cancel, a retry of a with-items task, an unusual but valid value) is what is wanted.

'''

if __name__ == "__main__":
    base = sys.argv[1].rstrip("/")
    if len(sys.argv) > 2 and sys.argv[2] == "4":  # wave 4: other places than the two hot functions
        T = T.replace(T[T.index("This library has already been hardened"):T.index("Also write a demonstration")], HINT4)
    if len(sys.argv) > 2 and sys.argv[2] in ("5","6"):  # wave 5: later clauses of the statement, other families of change
        import os
        hint5 = open(os.path.join(os.path.dirname(os.path.abspath(__file__)), "mutprompt_hint%s.txt" % sys.argv[2])).read()
        T = T.replace(T[T.index("This library has already been hardened"):T.index("Also write a demonstration")], hint5)
    for l in open('/verif/properties.jsonl'):
        p = json.loads(l)
        i = p['id']
        open('%s/prompts/%s.txt' % (base, i), 'w').write(T.format(
            base=base, wt='%s/%s' % (base, i), out='%s/out/%s' % (base, i), title=p['title'], statement=p['statement'],
            quant=p['quantifier']['text'], files=', '.join(p['anchors']['files'])))
