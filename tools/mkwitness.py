"""copy a replay file produced by a check into replays/known/ as the witness of a known finding"""
import json
import os
import sys

src, fid = sys.argv[1], sys.argv[2]
v = json.load(open(src))
keep = {k: v[k] for k in ("prop", "kind", "detail", "subject", "cause", "workload", "job", "wf", "inputs", "script",
                          "trace", "final_status", "insert", "origin") if k in v}
dst = os.path.join(os.path.dirname(os.path.dirname(os.path.abspath(__file__))), "replays", "known",
                   "%s_%s.json" % (fid, v["prop"]))
json.dump(keep, open(dst, "w"), indent=1, default=str)
print(dst)
