"""worker subprocess: python -m ovf.worker <jobs.json> <out.json>"""
import importlib
import json
import os
import sys
import traceback

from ovf import env


def start_reach():
    """which functions of the repository this worker entered (sys.monitoring PY_START, disabled per code object after
    the first hit, so the cost is one callback per function); reported in the evidence as the reach map"""
    mon = getattr(sys, "monitoring", None)
    entered = set()
    if mon is None:
        return None
    root = os.path.join(os.path.realpath(env.REPO), "orquesta") + os.sep

    def on_start(code, offset):
        fn = code.co_filename
        if fn.startswith(root) and "/tests/" not in fn and code.co_name != "<module>":
            entered.add("%s:%s" % (fn[len(root) - len("orquesta/"):], code.co_qualname))
        return mon.DISABLE

    try:
        mon.use_tool_id(3, "ovf-reach")
        mon.register_callback(3, mon.events.PY_START, on_start)
        mon.set_events(3, mon.events.PY_START)
    except Exception:
        return None
    return entered


def main():
    env.setup_path()
    cov = None
    if os.environ.get("OVF_LINECOV"):  # development aid (tools/linecov.sh): line coverage of the repository under a workload
        import coverage
        cov = coverage.Coverage(data_file=os.path.join(os.environ["OVF_LINECOV"], "cov"), data_suffix=True,
                                include=[os.path.join(os.path.realpath(env.REPO), "orquesta", "*")], omit=["*/tests/*"])
        cov.start()
    entered = start_reach() if cov is None else None
    with open(sys.argv[1]) as f:
        jobs = json.load(f)
    out = []
    for job in jobs:
        mod = importlib.import_module(job["mod"])
        fn = getattr(mod, job["fn"], None)
        if fn is None:
            from ovf import workloads
            fn = getattr(workloads, job["fn"])
        try:
            r = fn(job)
        except Exception:
            # a crash of the harness itself is never a verdict about the repository
            sys.stderr.write("job %r crashed:\n%s" % ({k: job[k] for k in job if k != 'case'}, traceback.format_exc()))
            sys.exit(3)
        out.append(r)
    if entered is not None and out and isinstance(out[0], dict):
        out[0].setdefault("sets", {})["reach.functions"] = sorted(entered)
    if cov is not None:
        cov.stop()
        cov.save()
    with open(sys.argv[2], "w") as f:
        json.dump(out, f, default=lambda o: sorted(o) if isinstance(o, (set, frozenset)) else str(o))


if __name__ == "__main__":
    main()
