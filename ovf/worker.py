"""worker subprocess: python -m ovf.worker <jobs.json> <out.json>"""
import importlib
import json
import sys
import traceback

from ovf import env


def main():
    env.setup_path()
    with open(sys.argv[1]) as f:
        jobs = json.load(f)
    out = []
    for job in jobs:
        mod = importlib.import_module(job["mod"])
        fn = getattr(mod, job["fn"], None)
        if fn is None:
            from ovf import workloads
            fn = getattr(workloads, job["fn"])
        try:
            r = fn(job)
        except Exception:
            # a crash of the harness itself is never a verdict about the repository
            sys.stderr.write("job %r crashed:\n%s" % ({k: job[k] for k in job if k != 'case'}, traceback.format_exc()))
            sys.exit(3)
        out.append(r)
    with open(sys.argv[2], "w") as f:
        json.dump(out, f, default=lambda o: sorted(o) if isinstance(o, (set, frozenset)) else str(o))


if __name__ == "__main__":
    main()
