"""C17 monitor: what an accepted / rejected rerun request may and may not do, and the cause predicates of
the recorded rerun defects (computed from what the harness reported before the request)."""
from ovf.sim.provider import Monitor, canon


def descendants(m, roots):
    seen = set()
    q = list(roots)
    while q:
        x = q.pop()
        if x in seen or x not in m.tasks:
            continue
        seen.add(x)
        for tr in m.tasks[x].trans:
            q.extend(tr.targets())
    return seen


class RerunMon(Monitor):
    name = "rerunmon"

    def on_init(self, run):
        self.stats = dict(reruns_accepted=0, reruns_rejected=0, offers_after_rerun=0, reexecuted=0)
        self.allowed = None
        self.requested = None
        self.completed_before = None

    def on_call(self, run, ev):
        if ev["op"] != "rerun":
            return
        if ev["exc"] is not None:
            self.stats["reruns_rejected"] += 1
            if canon(ev["pre"]) != canon(ev["post"]):
                run.viol("C17", "rejected_rerun_changed_state", "rerun %r was rejected (%s) but the persisted state changed"
                         % (ev["args"][0], type(ev["exc"]).__name__), subject="rerun")
            return
        self.stats["reruns_accepted"] += 1
        # cause predicates of recorded defects, computed from what the harness reported before the request
        led0 = getattr(run, "ledger", None)
        reqs0 = ev["args"][0]
        if led0 is not None and led0.enabled:
            if reqs0 is None and led0.fail_cmds:
                run.tags.add("rerun_default_after_fail_command")
            if reqs0 is None and not led0.unhandled:
                run.tags.add("rerun_nothing_to_rerun")
        if ev["pre"]["status"] != "failed":
            run.tags.add("rerun_nothing_to_rerun")
        if reqs0 is not None and led0 is not None and led0.enabled and run.model is not None:
            # an explicit request set that leaves a failure (or a fail command) that ended the workflow
            # neither requested nor downstream of a requested task
            cover = descendants(run.model, [t for t, r, ri in reqs0])
            left = [x.task for x in led0.unhandled + led0.fail_cmds if x.task not in cover]
            if left:
                run.tags.add("rerun_leaves_failure_unaddressed")
        if run.model is not None:
            # a re-executed task upstream of a join one of whose other inbound tasks is re-executed too (it is
            # downstream of the same request and already has a decided record from the first pass)
            m0 = run.model
            pst = ev["pre"]["state"]
            # (source task, join) pairs whose transition was satisfied in the first pass
            sat = set((r["id"], k.rsplit("__t", 1)[0]) for r in pst["sequence"] for k, v in (r.get("next") or {}).items() if v)
            if reqs0 is None:
                roots0 = [r["id"] for r in pst["sequence"] if r.get("status") in ("failed", "timeout", "abandoned")]
            else:
                roots0 = [t for t, r, ri in reqs0]
            down = descendants(m0, roots0)
            for jn in down:
                if jn in m0.tasks and m0.tasks[jn].join is not None:
                    # (also a requested task itself, when its first pass had a satisfied transition into the join - e.g. a task
                    # the provider canceled, with `when not succeeded()`: the arrival of its superseded record stays staged)
                    if any(i in down and (i, jn) in sat and (i not in roots0 or reqs0 is not None) for i in m0.inbound(jn)):
                        run.tags.add("rerun_join_stale_inbound")
        if ev["post"]["status"] != "resuming":
            run.viol("C17", "not_resuming_after_rerun", "status after an accepted rerun is %s" % ev["post"]["status"],
                     subject=ev["post"]["status"])
        pre = ev["pre"]["state"]
        reqs = ev["args"][0]
        led = getattr(run, "ledger", None)
        if reqs is None:
            roots = [r["id"] for r in pre["sequence"] if r.get("status") in ("failed", "timeout", "abandoned")]
        else:
            roots = [t for t, r, ri in reqs]
        due = [s["id"] for s in pre["staged"]]
        self.requested = set(roots)
        m = run.model
        self.allowed = descendants(m, list(roots) + due) if m is not None else None
        self.completed_before = set(r["id"] for r in pre["sequence"] if r.get("status") == "succeeded")

    def on_offer(self, run, ev, info, action, rec):
        if self.allowed is None or not run.ctl["reruns"]:
            return
        self.stats["offers_after_rerun"] += 1
        t = info["task"]
        if t in self.requested:
            self.stats["reexecuted"] += 1
            run.notes["rerun_nontrivial"] = True
        if t not in self.allowed:
            kind = "rerun_repeated_completed_task" if t in self.completed_before else "rerun_offer_unjustified"
            run.viol("C17", kind, "after the rerun of %s task %s was offered; it is neither requested, nor downstream of a "
                     "requested task, nor work still due" % (sorted(self.requested), t), subject=t)


