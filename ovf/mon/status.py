"""Online status monitors: C02 (truthful status), C03 (quiescence), C04 (terminal is final),
C09/C10 (no offers while pausing/paused/canceling/canceled; status tracks in-flight), C11
(exceptions escaping API calls).  All of them are assertions evaluated after every API call of
every history, using the harness's own in-flight set."""
from ovf.sim.provider import Monitor, TERMINAL, COMPLETED, RESTING, is_rejection, canon

ABENDED = ("failed", "timeout", "abandoned")


class StatusMonitor(Monitor):
    name = "status"

    def on_init(self, run):
        self.first_terminal = None
        self.cancel_accepted_step = None
        self.stats = dict(calls=0, quiescent_points=0, terminal_suffix_calls=0, late_reports=0, ctl_accepted=0,
                          ctl_rejected=0, statuses_seen=set(), pausing_seen=0, canceling_seen=0)
        self.runtime_error_logged = False
        self.last_errors_n = 0

    # --------------------------------------------------------------------------
    def on_call(self, run, ev):
        self.stats["calls"] += 1
        op = ev["op"]
        pre, post = ev["pre"], ev["post"]
        st = post["status"]
        self.stats["statuses_seen"].add(st)
        nin = len(run.inflight)
        # an acknowledged action is in flight as soon as it was offered; during the ack loop the
        # offered-but-not-yet-acked ones are about to be acked: count offers of this poll as in flight
        pending_acks = getattr(run, "_pending_acks", 0)

        # ---- C11: nothing but a lifecycle rejection / documented argument error may escape
        if ev["exc"] is not None:
            e = ev["exc"]
            if op == "req":
                self.stats["ctl_rejected"] += 1
                if canon(pre["state"]) != canon(post["state"]) or canon(pre["errors"]) != canon(post["errors"]):
                    run.viol("C04", "rejected_request_changed_state",
                             "status request %r in status %r was rejected but the persisted state changed"
                             % (ev["args"][0], pre["status"]), subject=ev["args"][0],
                             cause=self._rej_cause(pre))
            elif op == "rerun" and type(e).__name__ in ("WorkflowIsActiveAndNotRerunableError",
                                                         "InvalidTaskRerunRequest"):
                pass
            else:
                prop = "C04" if (self.first_terminal is not None and op in ("done", "ack")) else "C11"
                run.viol(prop, "exception_escaped", "%s%r raised %s: %s" % (op, tuple(ev["args"][:4]),
                                                                             type(e).__name__, str(e)[:200]),
                         subject=op, cause=self._exc_cause(run, ev))
                run.notes["escaped"] = True
        elif op == "req":
            self.stats["ctl_accepted"] += 1

        # ---- runtime errors logged (anything that is not the per-attempt failure log)
        for x in post["errors"][len(pre["errors"]):] if len(post["errors"]) >= len(pre["errors"]) else post["errors"]:
            msg = x.get("message", "")
            if not msg.startswith("Execution failed") and "UnreachableJoinError" not in msg:
                run.notes["runtime_error"] = True

        if op in ("ack",) and ev["args"][3] != "running":
            return
        # ---- C02: status vs. in-flight
        if op != "ack" and op != "poll2":
            if st in ("paused", "canceled", "succeeded") and nin > 0 and op != "poll":
                run.viol("C02", "resting_with_inflight", "status %s reported after %s while %d action(s) are in flight: %r"
                         % (st, op, nin, [(a["task"], a["item"]) for a in run.inflight][:4]), subject=st)
            if st in ("pausing", "canceling") and nin == 0 and op in ("done", "req"):
                run.viol("C02", "transient_without_inflight", "status %s reported after %s while no action is in flight"
                         % (st, op), subject=st)
        if st == "pausing":
            self.stats["pausing_seen"] += 1
        if st == "canceling":
            self.stats["canceling_seen"] += 1

        # ---- C02: what succeeded means
        if st == "succeeded" and pre["status"] != "succeeded":
            self._check_succeeded(run, ev)

        # ---- C04: terminal statuses are final
        if self.first_terminal is not None and op not in ("rerun",):
            self.stats["terminal_suffix_calls"] += 1
            if op == "done":
                self.stats["late_reports"] += 1
            ft = self.first_terminal
            if st != ft:
                ok = (ft == "succeeded" and st == "failed" and op == "render")
                if not ok:
                    run.viol("C04", "terminal_status_changed", "status went %s -> %s on %s%r"
                             % (ft, st, op, tuple(ev["args"][:4])), subject=ft, cause=self._term_cause(run, ev))
                self.first_terminal = st if st in TERMINAL else None
        if op == "rerun" and ev["exc"] is None:
            self.first_terminal = None
            self.cancel_accepted_step = None
        elif self.first_terminal is None and st in TERMINAL:
            self.first_terminal = st

        # ---- C10: after an accepted cancel
        if op == "req" and ev["exc"] is None and ev["args"][0] in ("canceling", "canceled"):
            if self.cancel_accepted_step is None and st in ("canceling", "canceled"):
                self.cancel_accepted_step = run.step
        if self.cancel_accepted_step is not None and op in ("done", "req", "render") and ev["exc"] is None:
            want = "canceling" if nin > 0 else "canceled"
            if st != want and not (st == "failed" and run.notes.get("runtime_error")):
                run.viol("C10", "cancel_status_wrong", "after an accepted cancel and %s, status is %s with %d action(s) "
                         "in flight (expected %s)" % (op, st, nin, want), subject=st, cause=self._cancel_cause(run, ev))

    def _rej_cause(self, pre):
        return None

    def _exc_cause(self, run, ev):
        return None

    def _term_cause(self, run, ev):
        return None

    def _cancel_cause(self, run, ev):
        return None

    def _check_succeeded(self, run, ev):
        post = ev["post"]
        stt = post["state"]
        superseded = set()
        for batch in stt.get("reruns") or []:
            superseded.update(batch)
        for i, rec in enumerate(stt["sequence"]):
            if rec.get("status") not in COMPLETED:
                run.viol("C02", "succeeded_with_incomplete_task", "workflow succeeded while %s (record %d) is %r"
                         % (rec["id"], i, rec.get("status")), subject=rec["id"])
        for s in stt["staged"]:
            if s.get("ready") and not s.get("completed"):
                run.viol("C02", "succeeded_with_ready_task", "workflow succeeded while %s is staged and ready"
                         % s["id"], subject=s["id"])
        if not getattr(run, "ledger", None) or not run.ledger.enabled:
            # no independent decision available: use the recorded decisions for the consequences
            for i, rec in enumerate(stt["sequence"]):
                if i in superseded:
                    continue
                if rec["id"] == "fail" and rec.get("status") == "failed":
                    run.viol("C02", "succeeded_after_fail_command", "workflow succeeded with a fail command record",
                             subject="fail")
                if rec.get("status") in ABENDED and rec["id"] != "fail":
                    handled = [k for k, v in (rec.get("next") or {}).items() if v and not k.startswith("continue__")]
                    if not handled and stt["tasks"].get("%s__r%s" % (rec["id"], rec["route"])) == i:
                        run.viol("C02", "succeeded_with_unhandled_failure", "workflow succeeded although %s failed with "
                                 "no satisfied transition" % rec["id"], subject=rec["id"])

    # --------------------------------------------------------------------------
    def on_offer(self, run, ev, info, action, rec):
        st = ev["pre"]["status"]
        if st in ("pausing", "paused"):
            run.viol("C09", "offer_while_paused", "task %s offered while the workflow is %s" % (info["task"], st),
                     subject=info["task"])
        if st in ("canceling", "canceled"):
            run.viol("C10", "offer_while_canceled", "task %s offered while the workflow is %s" % (info["task"], st),
                     subject=info["task"])
        if self.cancel_accepted_step is not None and st not in ("canceling", "canceled"):
            run.viol("C10", "offer_after_cancel", "task %s offered after an accepted cancel (status %s)"
                     % (info["task"], st), subject=info["task"])
        if st in ("succeeded", "canceled"):
            run.viol("C04", "offer_after_terminal", "task %s offered while the workflow is %s" % (info["task"], st),
                     subject=info["task"])
        if st == "failed" and (not getattr(run, "ledger", None) or not run.ledger.enabled or run.ledger.stopped):
            # without the ledger's justification the only check possible is the recorded flag
            stg = [s for s in ev["pre"]["state"]["staged"] if s["id"] == info["task"] and s["route"] == info["route"]]
            if not stg or not stg[0].get("run_on_fail"):
                run.viol("C04", "offer_after_failed", "task %s offered while failed and not flagged as clean-up"
                         % info["task"], subject=info["task"])

    # -------------------------------------------------------------------------- quiescence (C03)
    def quiescent(self, run, ev):
        """called by the driver when a poll returned nothing and nothing is in flight"""
        self.stats["quiescent_points"] += 1
        st = ev["post"]["status"]
        if st not in RESTING:
            run.viol("C03", "stuck", "no action in flight and nothing on offer but status is %s" % st, subject=st,
                     cause=self._stuck_cause(run))
        elif st == "paused":
            stt = ev["post"]["state"]
            held = [r for r in stt["sequence"] if r.get("status") in ("paused", "pending")]
            if not run.ctl["pause_req"] and not held and not run.ctl.get("resumed_before_rest") and not run.ctl.get("task_wait_seen"):
                run.viol("C03", "paused_without_reason", "workflow is paused with no pause request outstanding and no "
                         "paused or pending task", subject=st)

    def _stuck_cause(self, run):
        if run.ctl["reruns"]:
            return ["after_rerun"]
        return None

    def on_end(self, run):
        # C02: a task failure nobody handled, a fail command or a runtime error ends in failed
        # (unless a cancellation is in progress)
        led = getattr(run, "ledger", None)
        st = run.status()
        if run.inflight or run.notes.get("escaped"):
            return
        if run.ctl["cancel_req"] or self.cancel_accepted_step is not None:
            return
        bad = None
        if led is not None and led.enabled and not led.stopped:
            if led.unhandled:
                bad = "task %s failed with no matching transition" % led.unhandled[0].task
            elif led.fail_cmds:
                bad = "a fail command ran after %s" % led.fail_cmds[0].task
        if bad is None and run.notes.get("runtime_error"):
            bad = "a runtime error was logged"
        if bad and st != "failed" and st in RESTING and st != "paused":
            run.viol("C02", "not_failed_after_failure", "%s but the workflow ended %s" % (bad, st), subject=st)
