"""Token ledger, barrier ledger, retry model and causal-context oracle (C01, C07, C13, C06).

The ledger is an executable reference model fed only by boundary observations: what the conductor
offered (task, route, context, rendered input, delay) and what the harness reported (status,
result). Whether a transition is satisfied is decided here with the independent condition
evaluator from the Model - never from the engine's own `next` map, which is only *compared*.
"""
import copy

from ovf.gen import conds
from ovf.gen.defs import ENGINE_CMDS
from ovf.sim.provider import Monitor, COMPLETED, TERMINAL

ACTIVE_WF = ("requested", "scheduled", "delayed", "running", "resuming", "pausing", "canceling")
FINAL_MAP = {"succeeded": "succeeded", "failed": "failed", "timeout": "failed", "abandoned": "failed",
             "canceled": "canceled"}


class Entry(object):
    """value of a variable in an expected context + the chain of publish events that led to it"""
    __slots__ = ("value", "chain", "racy", "alts")

    def __init__(self, value, chain, racy=False, alts=None):
        self.value = value
        self.chain = chain  # tuple of writer ids, current writer last
        self.racy = racy  # decided by arrival order somewhere upstream (several unordered writers)
        self.alts = alts  # other acceptable entries where "the later arrival" is ambiguous

    @property
    def writer(self):
        return self.chain[-1]


class Exec(object):
    def __init__(self, eid, task, route):
        self.eid = eid
        self.task = task
        self.route = route
        self.octx = None  # context the conductor offered
        self.ectx = None  # expected context {var: Entry}
        self.dl = None  # list of delta ids as the engine's list-append merge would build it
        self.srcs = []  # [(Exec, Tr)] the obligation / arrivals that justify it
        self.state = "running"  # running | retrying | done
        self.offers = 0
        self.attempt = 0
        self.status = None
        self.result = None
        self.items = {}  # item -> dict(state=offered|running|done, status, result, attempt)
        self.n_items = None
        self.decisions = {}
        self.rof = False
        self.handled = None
        self.fail_cmd = False
        self.retried = 0
        self.rerun = False
        self.term_ctxs = []  # expected contexts reaching dead ends from this execution
        self.finish_no = None
        self.expect_delay = None


class Ledger(Monitor):
    name = "ledger"

    def __init__(self, check_ctx=True, strict_next=True):
        self.check_ctx = check_ctx
        self.strict_next = strict_next

    # ------------------------------------------------------------------ setup
    def on_init(self, run):
        self.m = run.model
        self.enabled = self.m is not None
        self.run_ref = run
        run.ledger = self
        self.execs = []
        self.open = {}  # (task, route) -> Exec
        self.oblig = []  # dict(target, src, tr, route, used, rof, split_key)
        self.joins = {}  # (join, route) -> dict(arr=[(exec, tr)], credits=int, fired=int, late=int)
        self.deltas = {}  # delta id -> {var: value}
        self.ndelta = 1
        self.nfinish = 0
        self.unhandled = []  # execs whose failure no transition handled
        self.fail_cmds = []  # execs that ran a fail command
        self.pubs = []  # (task, transition, var, value, racy) of every publish the model evaluated
        self.wvals = {}  # writer id -> value written
        self.deadends = []  # executions whose task has transitions but none was satisfied
        self.stopped = False  # ledger gives up justification after something it cannot model
        self.stats = dict(execs=0, decided_true=0, decided_false=0, join_arrivals=0, join_fired=0, retried=0,
                          ctx_checked=0, ctx_vars=0, join_conflicts=0, out_checked=0, undecidable=0)
        if not self.enabled:
            return
        base = {}
        try:
            for name, default in self.m.input:
                v = run.inputs.get(name, default)
                base[name] = Entry(copy.deepcopy(v), (("input", name),))
            for name, val in self.m.vars:
                base[name] = Entry(copy.deepcopy(val), (("vars", name),))
        except Exception:
            self.enabled = False
            return
        self.base = base
        self.deltas[0] = {k: e.value for k, e in base.items()}
        for s in self.m.start_tasks():
            self.oblig.append(dict(target=s, src=None, tr=None, route=0, used=False, rof=False, split=None,
                                   ectx=dict(base), dl=[0], born=0))

    # ------------------------------------------------------------------ offers
    def on_offer(self, run, ev, info, action, rec):
        if not self.enabled or self.stopped:
            return
        m = self.m
        task, route = info["task"], info["route"]
        if task not in m.tasks:
            run.viol("C01", "offer_unknown_task", "offered %r which is not a task of the definition" % task, subject=task)
            return
        key = (task, route)
        e = self.open.get(key)
        t = m.tasks[task]
        item = rec["item"]
        if e is not None and e.state == "retrying":
            # re-offer of a retried attempt
            e.state = "running"
            e.attempt += 1
            e.offers += 1
            e.items = {}
            e.n_items = info.get("items_count")
            pol = m.retry_policy(task)
            self._check_retry_reoffer(run, e, info, pol)
            self._check_ctx(run, e, info, action)
            if item is not None and item != "EMPTY":
                e.items[item] = dict(state="offered", attempt=e.attempt)
            return
        if e is not None and e.state == "running":
            if t.items is not None and item is not None:
                if item == "EMPTY":
                    return
                if item in e.items and e.items[item].get("attempt") == e.attempt and not e.rerun:
                    # item-level duplicates are C12's business
                    pass
                e.items.setdefault(item, dict(state="offered", attempt=e.attempt))
                e.items[item].update(state="offered", attempt=e.attempt)
                if action is not None and rec.get("item") is not None:
                    self._check_item_input(run, e, info, action)
                return
            run.viol("C01", "exec_duplicate_offer",
                     "task %s route %s offered again while its execution is still running" % key,
                     subject=task, cause=self._cause(run, task, route))
            return
        # a new execution: it must consume exactly one obligation
        e = Exec(len(self.execs), task, route)
        e.octx = info["ctx"]
        e.offers = 1
        e.n_items = info.get("items_count")
        self.execs.append(e)
        self.open[key] = e
        self.stats["execs"] += 1
        if item is not None and item != "EMPTY":
            e.items[item] = dict(state="offered", attempt=0)
        ob = None
        if t.join is not None:
            j = self.joins.get(key)
            if j is None or j["credits"] <= 0:
                have = len(set(a[0].task for a in j["arr"])) if j else 0
                need = self._requirement(task)
                run.viol("C07", "join_offer_unsatisfied" if (j is None or j["fired"] == 0) else "join_offered_again",
                         "join %s route %s offered with %d/%s distinct satisfied inbound tasks (fired %d times before)"
                         % (task, route, have, need, j["fired"] if j else 0), subject=task,
                         cause=self._cause(run, task, route))
                # keep going with whatever arrived so far so that later checks stay meaningful
                e.ectx = self._merge_arrivals(j["arr"]) if j and j["arr"] else None
                e.dl = None
            else:
                j["credits"] -= 1
                j["fired"] += 1
                self.stats["join_fired"] += 1
                e.srcs = list(j["arr"])
                e.ectx = self._merge_arrivals(j["arr"])
                e.dl = self._merge_dl(j["arr"])
                e.rof = any(a[2].get("rof") for a in j["arr"])
                j["arr_consumed"] = list(j["arr"])
                if run.model.in_cycle(task):
                    j["arr"] = []
        else:
            ob = self._find_obligation(run, task, route)
            if ob is None:
                run.viol("C01", "exec_unjustified",
                         "task %s route %s offered without an unconsumed satisfied transition into it (or start)" % key,
                         subject=task, cause=self._cause(run, task, route))
            else:
                ob["used"] = True
                e.srcs = [(ob["src"], ob["tr"], ob)] if ob["src"] is not None else []
                e.ectx = ob["ectx"]
                e.dl = ob["dl"]
                e.rof = ob["rof"]
        pre_status = ev["pre"]["status"]
        if pre_status == "failed" and not e.rof:
            run.viol("C04", "offer_after_failed",
                     "task %s offered while the workflow is failed and it is not a clean-up task listed beside a "
                     "fail command" % task, subject=task)
        self._check_ctx(run, e, info, action)
        if t.delay is not None and info.get("delay") != t.delay:
            run.viol("C01", "task_delay_wrong", "task %s offered with delay %r, definition says %r"
                     % (task, info.get("delay"), t.delay), subject=task)
        if t.delay is None and info.get("delay") not in (None, 0):
            run.viol("C13", "delay_unexpected", "task %s first offered with delay %r" % (task, info.get("delay")),
                     subject=task)

    def _cause(self, run, task, route):
        """cause tags evaluated independently of the outcome (see findings.py)"""
        tags = []
        j = self.joins.get((task, route))
        if j and j.get("late"):
            tags.append("late_arrival_int_join")
        return tags or None

    def _requirement(self, join):
        t = self.m.tasks[join]
        return len(self.m.inbound(join)) if t.join == "all" else int(t.join)

    def _find_obligation(self, run, task, route):
        routes = run.last["state"]["routes"]
        for ob in self.oblig:
            if ob["used"] or ob["target"] != task:
                continue
            if ob["split"] is None:
                if ob["route"] == route:
                    return ob
            else:
                try:
                    want = list(routes[ob["route"]])
                    if ob["split"] not in want:
                        want.append(ob["split"])
                    if routes[route] == want and (route != ob["route"] or want == routes[ob["route"]]):
                        return ob
                except (IndexError, TypeError):
                    continue
        return None

    # ------------------------------------------------------------------ context oracle
    def _check_ctx(self, run, e, info, action):
        if not self.check_ctx or e.ectx is None:
            return
        octx = info["ctx"]
        self.stats["ctx_checked"] += 1
        for var, ent in e.ectx.items():
            self.stats["ctx_vars"] += 1
            if var not in octx:
                run.viol("C06", "ctx_var_missing", "task %s: variable %s missing from offered context"
                         % (e.task, var), subject=var, cause=self._ctx_cause(e, var, None))
            elif octx[var] != ent.value or type(octx[var]) is not type(ent.value):
                hit = [a for a in (ent.alts or []) if a.value == octx[var] and type(a.value) is type(octx[var])]
                if hit:
                    e.ectx = dict(e.ectx)
                    e.ectx[var] = hit[0]
                    continue
                run.viol("C06", "ctx_mismatch", "task %s route %s: ctx(%s) = %r, causal rule prescribes %r (writer %r)"
                         % (e.task, e.route, var, octx[var], ent.value, ent.writer), subject=var,
                         cause=self._ctx_cause(e, var, octx[var]))
        known = set(e.ectx)
        for var in octx:
            if var not in known:
                run.viol("C06", "ctx_var_leaked", "task %s: variable %s visible but not published on any path to it"
                         % (e.task, var), subject=var)
        t = self.m.tasks[e.task]
        if action is not None and t.ainput and t.items is None:
            exp = {}
            try:
                for p, spec in t.ainput.items():
                    exp[p] = conds.eval_val(spec, {k: v.value for k, v in e.ectx.items()})
            except conds.CondError:
                return
            if action.get("input") != exp:
                run.viol("C06", "action_input_mismatch", "task %s rendered input %r, expected %r"
                         % (e.task, action.get("input"), exp), subject=e.task,
                         cause=self._ctx_cause(e, None, None))

    def _check_item_input(self, run, e, info, action):
        t = self.m.tasks[e.task]
        if t.items is None or e.ectx is None:
            return
        lst = e.ectx.get(t.items["var"])
        if lst is None or not isinstance(lst.value, list):
            return
        i = action.get("item_id")
        if t.ainput and "message" in t.ainput and t.ainput["message"] == ("item",):
            if i is None or i >= len(lst.value) or action.get("input") != {"message": lst.value[i]}:
                run.viol("C12", "item_input_wrong", "task %s item %r rendered input %r, item list %r"
                         % (e.task, i, action.get("input"), lst.value), subject=e.task)

    def _ctx_cause(self, e, var, observed):
        """F6 model: does the engine's list-append merge predict exactly the observed value while the
        causal rule prescribes another one?"""
        if e.dl is None:
            return None
        pred = {}
        for d in e.dl:
            pred.update(self.deltas.get(d, {}))
        if var is None:
            hit = any(pred.get(k) != v.value for k, v in e.ectx.items())
        else:
            hit = var in pred and observed is not None and pred[var] == observed and e.ectx[var].value != observed
        if hit:
            self.run_ref.tags.add("stale_delta_order")
            return ["stale_delta_order"]
        return None

    def _merge_arrivals(self, arr):
        """causal merge: per variable the causally maximal entries among the arriving branches; the
        latest arrival wins only among several unordered ones"""
        out = {}
        ctxs = [a[2]["ectx"] for a in arr]
        vars_ = []
        for c in ctxs:
            for v in c:
                if v not in vars_:
                    vars_.append(v)
        for v in vars_:
            ents = [c[v] for c in ctxs if v in c]
            maximal = []
            for i, en in enumerate(ents):
                dominated = False
                for k, other in enumerate(ents):
                    if k != i and other.writer != en.writer and en.writer in other.chain:
                        dominated = True
                        break
                if not dominated:
                    maximal.append((i, en))
            if not maximal:  # mutual domination through merged chains: treat as unordered
                maximal = list(enumerate(ents))
            win = maximal[-1][1]
            writers = []
            for _, en in maximal:
                if en.writer not in writers:
                    writers.append(en.writer)
            racy = any(en.racy for _, en in maximal)
            alt = None
            if len(writers) > 1:
                self.stats["join_conflicts"] += 1
                racy = True
                # "the later arrival wins" is ambiguous when the same value arrives on several branches
                # around an independent one: by last arrival the winner is maximal[-1], by first arrival
                # it is the writer whose first carrier arrived latest; both readings are accepted
                first_seen = {}
                for i, en in maximal:
                    first_seen.setdefault(en.writer, (i, en))
                by_first = max(first_seen.values(), key=lambda x: x[0])[1]
                if by_first.writer != win.writer:
                    alt = by_first
            def mk(w):
                chain = []
                for en in ents:
                    for x in en.chain:
                        if x not in chain and x != w.writer:
                            chain.append(x)
                chain.append(w.writer)
                return tuple(chain)
            chain = mk(win)
            if alt is not None:
                self.stats["ambiguous_merges"] = self.stats.get("ambiguous_merges", 0) + 1
                out[v] = Entry(win.value, chain, racy, alts=[Entry(alt.value, mk(alt), racy)])
                continue
            out[v] = Entry(win.value, tuple(chain), racy)
        return out

    @staticmethod
    def _list_merge(current, incoming):
        """the monitors' model of how a list-of-deltas representation merges an arriving branch: an entry already
        included keeps its place, a new one goes after what precedes it and, if possible, before what follows it in
        the arriving list, else to the end.  A single list order cannot express the per-variable rule of the
        property in every nested-join shape; this model is what identifies those cases (cause tag
        `stale_delta_order`): the observed value equals the model's prediction while the causal rule
        prescribes another."""
        merged = list(current)
        for pos, idx in enumerate(incoming):
            if idx in merged:
                continue
            leaders = [merged.index(i) for i in incoming[:pos] if i in merged]
            followers = [merged.index(i) for i in incoming[pos + 1:] if i in merged]
            after = max(leaders) + 1 if leaders else 0
            before = min(followers) if followers else len(merged)
            merged.insert(max(after, before), idx)
        return merged

    def _merge_dl(self, arr):
        dl = None
        for a in arr:
            d = a[2]["dl"]
            if d is None:
                return None
            if dl is None:
                dl = list(d)
            else:
                dl = self._list_merge(dl, [x for x in d if x != 0])
        return dl

    # ------------------------------------------------------------------ retry model
    def _check_retry_reoffer(self, run, e, info, pol):
        want = 0
        if pol is not None and e.expect_delay is not None:
            want = e.expect_delay
        got = info.get("delay")
        if (got or 0) != (want or 0):
            run.viol("C13", "retry_delay_wrong", "task %s re-offered with delay %r, retry policy says %r"
                     % (e.task, got, want), subject=e.task)

    def _retry_allowed(self, run, e, status, result, pre_status):
        """upper bound: may the engine retry this attempt?  returns (allowed, reason)"""
        pol = self.m.retry_policy(e.task)
        if pol is None:
            return False, "no retry policy"
        ctxv = dict(e.octx) if e.octx is not None else {k: v.value for k, v in (e.ectx or {}).items()}
        cnt = pol["count"]
        if isinstance(cnt, tuple):
            cnt = ctxv.get(cnt[1])
        dl = pol.get("delay")
        if isinstance(dl, tuple):
            dl = ctxv.get(dl[1])
        e.expect_delay = dl
        if not isinstance(cnt, int):
            return True, "count undecidable"
        if e.retried >= cnt:
            return False, "attempts exhausted (%d of %d retries used)" % (e.retried, cnt)
        if pre_status not in ACTIVE_WF:
            return False, "workflow not active (%s)" % pre_status
        try:
            if pol["default_when"]:
                ok = status == "failed"
            else:
                ok = conds.eval_cond(pol["when"], status, result, ctxv)
        except conds.CondError:
            return True, "condition undecidable"
        return ok, "retry condition is %s" % ok

    # ------------------------------------------------------------------ completions
    def on_done(self, run, ev, a, status, result):
        if not self.enabled or self.stopped:
            return
        key = (a["task"], a["route"])
        e = self.open.get(key)
        if e is None:
            return
        t = self.m.tasks[e.task]
        post = ev["post"]
        rec = self._record(post["state"], e.task, e.route)
        if ev["exc"] is not None:
            # containment is C11's business; the ledger cannot follow the engine after an escape
            self.stopped = True
            return
        if t.items is not None:
            if a["item"] == "EMPTY":
                fstatus, fresult = "succeeded", []
            else:
                it = e.items.setdefault(a["item"], dict(attempt=e.attempt))
                it.update(state="done", status=status, result=result)
                still = [x for x in run.inflight if x["task"] == e.task and x["route"] == e.route]
                if still:
                    return
                cands, may_stay_open = self._items_final(run, e)
                rst = rec.get("status") if rec else None
                if rst == "retrying":
                    fstatus = "failed" if "failed" in cands else (sorted(cands)[0] if cands else "failed")
                elif rst in COMPLETED:
                    if rst not in cands:
                        run.viol("C12", "items_task_status", "with-items task %s: record status %r, item outcomes %r "
                                 "prescribe %s" % (e.task, rst, {i: it.get("status") for i, it in sorted(e.items.items())},
                                                   sorted(cands) or "that it stays open"), subject=e.task)
                    fstatus = rst
                else:
                    if not may_stay_open:
                        run.viol("C12", "items_task_status", "with-items task %s: record status %r after its last "
                                 "in-flight item reported, item outcomes %r prescribe %s"
                                 % (e.task, rst, {i: it.get("status") for i, it in sorted(e.items.items())}, sorted(cands)),
                                 subject=e.task)
                    return
                fresult = [e.items[i]["result"] if i in e.items and e.items[i].get("state") == "done" else None
                           for i in range(max(list(e.items) + [-1]) + 1)]
        else:
            fstatus, fresult = FINAL_MAP.get(status), result
            if fstatus is None:
                return  # not a completion (pending/paused ...)
        rstatus = rec.get("status") if rec else None
        # retry decision (engine's, observed) against the model's upper bound
        if rstatus == "retrying":
            allowed, why = self._retry_allowed(run, e, fstatus, fresult, ev["pre"]["status"])
            if not allowed:
                run.viol("C13", "retry_not_allowed", "task %s attempt %d was retried although %s"
                         % (e.task, e.attempt, why), subject=e.task)
            self._check_retried_attempt_silent(run, ev, e, rec)
            e.state = "retrying"
            e.retried += 1
            self.stats["retried"] += 1
            run.reset_accum(e.task, e.route)
            return
        else:
            self._retry_allowed(run, e, fstatus, fresult, ev["pre"]["status"])
        if rstatus != fstatus:
            if t.items is not None:
                run.viol("C12", "items_task_status", "with-items task %s: record status %r, item outcomes prescribe %r"
                         % (e.task, rstatus, fstatus), subject=e.task)
                if rstatus not in COMPLETED:
                    return
                fstatus = rstatus
            else:
                run.viol("C01", "task_status_wrong", "task %s: record status %r after reported %r"
                         % (e.task, rstatus, status), subject=e.task)
                if rstatus not in COMPLETED:
                    return
        self._final(run, ev, e, fstatus, fresult, rec)
        self._check_new_unreachable(run, ev)

    def _check_new_unreachable(self, run, ev):
        """an unreachable-join error must name a join that, when the error is logged, has at least one
        satisfied inbound task and fewer than it requires"""
        pre_n = len(ev["pre"]["errors"])
        for x in ev["post"]["errors"][pre_n:]:
            if "UnreachableJoinError" not in x.get("message", ""):
                continue
            jn, route = x.get("task_id"), x.get("route")
            j = self.joins.get((jn, route))
            have = len(set(a[0].task for a in j["arr"])) if j else 0
            need = self._requirement(jn) if jn in self.m.tasks and self.m.tasks[jn].join is not None else None
            if need is None or have == 0 or (have >= need and j["fired"] == 0):
                run.viol("C07", "unreachable_join_error_spurious", "unreachable-join error names %s route %s which has "
                         "%d of %s inbound tasks arrived" % (jn, route, have, need), subject=jn)

    def _items_final(self, run, e):
        """(acceptable final statuses, may the task stay open) for a with-items execution none of
        whose items is in flight.  Under a pause or cancel request the task-level status the engine
        settles on (failed / canceled / paused) is not fixed by the property, only success is."""
        done = [i for i, it in e.items.items() if it.get("state") == "done"]
        failed = [i for i in done if e.items[i]["status"] in ("failed", "timeout", "abandoned")]
        canceled = [i for i in done if e.items[i]["status"] == "canceled"]
        n = e.n_items if e.n_items is not None else len(e.items)
        ok = [i for i in done if e.items[i]["status"] == "succeeded"]
        stopping = run.ctl["cancel_req"] or run.ctl["pause_req"]
        if len(ok) >= n:
            return {"succeeded"}, False
        if failed:
            return ({"failed", "canceled"} if run.ctl["cancel_req"] else {"failed"}), False
        if canceled:
            return {"canceled"}, False
        if run.ctl["cancel_req"]:
            return {"canceled"}, True
        return set(), True

    def _check_retried_attempt_silent(self, run, ev, e, rec):
        pre, post = ev["pre"]["state"], ev["post"]["state"]
        if len(post["contexts"]) != len(pre["contexts"]):
            run.viol("C13", "retried_attempt_published", "task %s: a context was appended for a retried attempt"
                     % e.task, subject=e.task)
        if rec.get("next"):
            run.viol("C13", "retried_attempt_decided", "task %s: transitions decided for a retried attempt: %r"
                     % (e.task, rec.get("next")), subject=e.task)
        pre_st = set((s["id"], s["route"]) for s in pre["staged"])
        for s in post["staged"]:
            if (s["id"], s["route"]) not in pre_st and (s["id"], s["route"]) != (e.task, e.route):
                run.viol("C13", "retried_attempt_staged", "task %s: successor %s staged for a retried attempt"
                         % (e.task, s["id"]), subject=e.task)
        if ev["post"]["status"] == "failed" and ev["pre"]["status"] != "failed":
            run.viol("C13", "retried_attempt_failed_wf", "task %s: workflow failed on a retried attempt" % e.task,
                     subject=e.task)

    def _record(self, state, task, route):
        idx = state["tasks"].get("%s__r%s" % (task, route))
        return state["sequence"][idx] if idx is not None else None

    def _final(self, run, ev, e, fstatus, fresult, rec):
        m = self.m
        t = m.tasks[e.task]
        e.state = "done"
        e.status, e.result = fstatus, fresult
        self.nfinish += 1
        e.finish_no = self.nfinish
        self.open.pop((e.task, e.route), None)
        # conditions and publishes are evaluated against the context the execution was *offered*
        # (a wrong offered context is reported once, where it is offered, not again downstream)
        ctxv = dict(e.octx) if e.octx is not None else {k: v.value for k, v in (e.ectx or {}).items()}
        any_task_target = False
        handled = False
        fail_here = False
        new_obs = []
        tr_delta = {}
        rank = {}
        engine_next = (rec or {}).get("next") or {}
        for target, tr in t.edges():
            if target == "retry":
                continue
            k = rank.get(target, 0)
            rank[target] = k + 1
            try:
                sat = conds.eval_cond(tr.cond, fstatus, fresult, ctxv)
            except conds.CondError:
                self.stats["undecidable"] += 1
                self.stopped = True
                return
            self.stats["decided_true" if sat else "decided_false"] += 1
            e.decisions[(target, tr.idx)] = sat
            tid = "%s__t%d" % (target, k)
            if self.strict_next and tid not in engine_next and rec is not None and not run.notes.get("runtime_error"):
                run.viol("C01", "transition_not_decided",
                         "task %s (%s): the conductor recorded no decision for transition %d -> %s"
                         % (e.task, fstatus, tr.idx, target), subject=e.task)
            if self.strict_next and tid in engine_next and bool(engine_next[tid]) != sat:
                run.viol("C01", "transition_decision_mismatch",
                         "task %s (%s, result %r): transition %d -> %s decided %r by the conductor, condition "
                         "evaluates %r" % (e.task, fstatus, fresult, tr.idx, target, engine_next[tid], sat),
                         subject=e.task)
            if not sat:
                continue
            if target != "continue":
                handled = True
            # publishes of this transition, evaluated sequentially on a rolling context
            ectx = dict(e.ectx) if e.ectx is not None else None
            delta = {}
            if ectx is not None and tr.pubs:
                roll = dict(ctxv)
                try:
                    for var, spec in tr.pubs:
                        val = conds.eval_val(spec, roll, result=fresult)
                        roll[var] = val
                        delta[var] = val
                        prev = ectx[var].chain if var in ectx else ()
                        racy = any(ectx[sv].racy for sv in conds.val_vars(spec) if sv in ectx)
                        ectx[var] = Entry(val, prev + ((e.eid, tr.idx, var),), racy)
                        self.pubs.append((e.task, tr.idx, var, val, racy))
                        self.wvals[(e.eid, tr.idx, var)] = val
                except (conds.CondError, KeyError, TypeError):
                    self.stats["undecidable"] += 1
                    self.stopped = True
                    return
            dl = list(e.dl) if e.dl is not None else None
            if delta and dl is not None:
                # one delta per transition, shared by all its targets
                if tr.idx not in tr_delta:
                    self.deltas[self.ndelta] = delta
                    tr_delta[tr.idx] = self.ndelta
                    self.ndelta += 1
                dl.append(tr_delta[tr.idx])
            ob = dict(target=target, src=e, tr=tr, route=e.route, used=False, rof=False, split=None, ectx=ectx,
                      dl=dl, born=run.step)
            if target in ENGINE_CMDS:
                if target == "fail":
                    fail_here = True
                    e.fail_cmd = True
                e.term_ctxs.append(ob)
                continue
            if target not in m.tasks:
                continue
            any_task_target = True
            tt = m.tasks[target]
            if tt.join is not None:
                j = self.joins.setdefault((target, e.route), dict(arr=[], credits=0, fired=0, late=0))
                need = self._requirement(target)
                before = len(set(a[0].task for a in j["arr"]))
                if j["fired"] > 0 and not m.in_cycle(target):
                    # an arrival after the barrier was already satisfied and consumed.  The recorded defect (F1) is that
                    # the engine then stages the join AGAIN; while the join waits for a retry its staged entry still
                    # exists and the arrival is merged into it - nothing is staged again, so that case is not tagged
                    waiting = self.open.get((target, e.route))
                    if waiting is not None and waiting.state == "retrying":
                        self.stats["late_arrivals_at_waiting_retry"] = self.stats.get("late_arrivals_at_waiting_retry", 0) + 1
                    else:
                        j["late"] += 1
                        run.tags.add("late_arrival_int_join")
                        from ovf.mon.rerun import descendants
                        run.tag_scopes.setdefault("late_arrival_int_join", set()).update(descendants(m, [target]))
                j["arr"].append((e, tr, ob))
                self.stats["join_arrivals"] += 1
                after = len(set(a[0].task for a in j["arr"]))
                if before < need <= after and (j["fired"] == 0 or m.in_cycle(target)):
                    j["credits"] += 1
                new_obs.append(ob)
            else:
                if m.is_split(target) and not m.in_cycle(target):
                    ob["split"] = "%s__t%d" % (e.task, k)
                else:
                    busy = self.open.get((target, e.route))
                    pending = [o for o in self.oblig if not o["used"] and o["target"] == target and o["route"] == e.route
                               and o["split"] is None]
                    if (busy is not None and busy.state in ("running", "retrying")) or pending:
                        # cause tag of a recorded defect (F20): a second execution of a task is due on a route on which
                        # its previous execution has not finished; the engine keys executions by (task, route)
                        run.tags.add("rearrival_at_running_task")
                self.oblig.append(ob)
                new_obs.append(ob)
        if fail_here:
            for ob in new_obs:
                ob["rof"] = True
        has_edges = bool([1 for tg, _ in t.edges() if tg != "retry"])
        if not has_edges:
            e.term_ctxs.append(dict(ectx=e.ectx, dl=e.dl, target=None))
        elif not any(sat for sat in e.decisions.values()):
            # a dead end: the task has transitions but none was satisfied
            e.term_ctxs.append(dict(ectx=e.ectx, dl=e.dl, target=None, deadend=True))
            self.deadends.append(e)
        e.handled = handled
        if fstatus == "failed" and not handled:
            self.unhandled.append(e)
        if fail_here:
            self.fail_cmds.append(e)

    # ------------------------------------------------------------------ other calls
    def on_call(self, run, ev):
        if not self.enabled:
            return
        if ev["op"] == "req" and not (ev["args"][0] == "running" and not run.offers):
            self.ctl_seen = True
        if ev["op"] == "rerun" and ev["exc"] is None:
            if not self.stopped:
                # joins left partially satisfied when the workflow stopped: a rerun that does not bring their
                # missing branches must not let the workflow succeed
                self.partial_at_rerun = [(jn, rt, sorted(set(a[0].task for a in self.joins[(jn, rt)]["arr"])))
                                         for jn, rt in self.partial_joins()]
                self.rerun_offer_mark = len(run.offers)
            self.stopped = True  # reruns are followed by the C17 monitor

    # ------------------------------------------------------------------ end of history
    def on_end(self, run):
        if self.enabled and getattr(self, "partial_at_rerun", None) and run.status() == "succeeded" and not run.inflight:
            after = run.offers[self.rerun_offer_mark:]
            ran_after = set(o["task"] for o in after)
            for jn, rt, arrived in self.partial_at_rerun:
                missing = [i for i in self.m.inbound(jn) if i not in arrived]
                if jn not in ran_after and not any(i in ran_after for i in missing):
                    run.viol("C07", "join_partial_at_success", "after the rerun the workflow succeeded although join %s route %s "
                             "had only %r of its inbound tasks arrived and neither it nor the missing ones ran again"
                             % (jn, rt, arrived), subject=jn)
        if not self.enabled or self.stopped:
            return
        if not run.inflight and run.status() in ("running", "resuming") and not run.notes.get("max_steps"):
            # the workflow hangs: if a join got some but not all of its arrivals and nothing can bring the rest, the property
            # asks for the unreachable-join failure, not for a workflow that sits there
            for jn, route in self.partial_joins():
                run.viol("C07", "hang_with_unreachable_join", "nothing is in flight or on offer (status %s) while join %s route %s "
                         "is partially satisfied and can no longer be satisfied: expected failed with an unreachable-join error"
                         % (run.status(), jn, route), subject=jn, cause=self._cause(run, jn, route))
            for (jn, route), j in self.joins.items():
                if j["credits"] > 0:
                    run.viol("C07", "join_satisfied_never_ran", "nothing is in flight or on offer (status %s) but join %s route %s "
                             "is satisfied and was not run" % (run.status(), jn, route), subject=jn,
                             cause=self._cause(run, jn, route))
        status = run.status()
        if run.inflight:
            return
        if status == "failed" and not getattr(self, "ctl_seen", False) and not run.tags and not run.notes.get("max_steps") \
                and not [x for x in run.c.errors if not str(x.get("message", "")).startswith("Execution failed")]:
            # the tasks listed beside a fail command are the one thing a failed workflow still starts (C04's documented
            # exception): their satisfied transitions yield an execution like any other (no request, expression error
            # or recorded defect intervened in this run)
            for ob in self.oblig:
                if ob["rof"] and not ob["used"] and ob["target"] in self.m.tasks and self.m.tasks[ob["target"]].join is None:
                    run.viol("C01", "cleanup_beside_fail_never_offered", "the workflow failed through a fail command after %s; "
                             "the satisfied transition %s -> %s beside it was never executed"
                             % (ob["src"].task, ob["src"].task, ob["target"]), subject=ob["target"])
            self.stats["rof_obligations_checked"] = self.stats.get("rof_obligations_checked", 0) + \
                len([1 for ob in self.oblig if ob["rof"]])
        if status == "succeeded":
            for ob in self.oblig:
                if not ob["used"]:
                    run.viol("C01", "exec_lost", "workflow succeeded but the satisfied transition %s -> %s was never "
                             "executed" % (ob["src"].task if ob["src"] else "<start>", ob["target"]),
                             subject=ob["target"])
            for (jn, route), j in self.joins.items():
                pending = j["arr"] if self.m.in_cycle(jn) else (j["arr"] if j["fired"] == 0 else [])
                if pending and j["credits"] == 0:
                    run.viol("C07", "join_partial_at_success", "workflow succeeded while join %s route %s had %d of %s "
                             "inbound tasks arrived and never ran" % (jn, route, len(set(a[0].task for a in pending)),
                                                                     self._requirement(jn)), subject=jn)
                if j["credits"] > 0:
                    run.viol("C07", "join_satisfied_never_ran", "workflow succeeded but satisfied join %s route %s "
                             "never ran" % (jn, route), subject=jn)
            if self.unhandled:
                run.viol("C02", "succeeded_with_unhandled_failure", "workflow succeeded although %s failed with no "
                         "matching transition" % [x.task for x in self.unhandled], subject=self.unhandled[0].task)
            if self.fail_cmds:
                run.viol("C02", "succeeded_after_fail_command", "workflow succeeded although a fail command ran after %s"
                         % [x.task for x in self.fail_cmds], subject=self.fail_cmds[0].task)
        if status in ("succeeded", "failed") and not run.ctl["cancel_req"]:
            self._check_unreachable(run, status)
        if status == "succeeded" and self.check_ctx:
            self._check_output(run)

    def expected_output(self):
        """(values, racy vars): merge of the contexts reaching the terminal executions by the causal
        rule; a variable with several unordered maximal writers is racy (any of them is acceptable)"""
        terms = []
        for e in sorted([x for x in self.execs if x.state == "done"], key=lambda x: x.finish_no):
            for tc in e.term_ctxs:
                if tc.get("ectx") is not None:
                    terms.append(tc["ectx"])
        if not terms:
            return None, None, None
        vals, racy, alts = {}, set(), {}
        self.out_entries = {}
        vars_ = []
        for c in terms:
            for v in c:
                if v not in vars_:
                    vars_.append(v)
        for v in vars_:
            ents = [c[v] for c in terms if v in c]
            maximal = []
            for i, en in enumerate(ents):
                if not any(k != i and o.writer != en.writer and en.writer in o.chain for k, o in enumerate(ents)):
                    maximal.append(en)
            if not maximal:  # mutual domination through merged chains: treat as unordered
                maximal = list(ents)
            writers = []
            for en in maximal:
                if en.writer not in writers:
                    writers.append(en.writer)
            vals[v] = maximal[-1].value
            self.out_entries[v] = maximal[-1]
            alts[v] = [en.value for en in maximal]
            if len(writers) > 1 or any(en.racy for en in maximal):
                racy.add(v)
        return vals, racy, alts

    def _check_output(self, run):
        out = run.c.get_workflow_output()
        vals, racy, alts = self.expected_output()
        if vals is None or self.m is None:
            return
        self.racy_out = racy
        last = max([x.finish_no for x in self.execs if x.state == "done"] or [0])
        dead_not_last = [x.task for x in self.deadends if x.finish_no != last]
        for name, spec, lang in self.m.output:
            if spec[0] != "ref":
                continue
            var = spec[1]
            if var not in vals:
                continue
            self.stats["out_checked"] += 1
            got = (out or {}).get(name, "<absent>")
            if var in racy:
                ok = any(got == a for a in alts[var]) or True  # arrival order decides: any value is acceptable
            else:
                ok = got == vals[var]
            if not ok:
                cause = []
                if dead_not_last:
                    cause.append("deadend_not_last")
                pred = self._term_pred()
                if pred is not None and pred.get(var, "<absent>") == got:
                    cause.append("stale_delta_order")
                    run.tags.add("stale_delta_order")
                run.viol("C06", "output_mismatch", "output %s = %r, the contexts reaching the terminal tasks prescribe %r"
                         % (name, got, vals[var]), subject=var, cause=cause or None)

    def _term_pred(self):
        """what a list-of-deltas terminal context (terminal records in record order, lists merged) yields"""
        try:
            lst = None
            for e in sorted([x for x in self.execs if x.state == "done"], key=lambda x: x.finish_no):
                for tc in e.term_ctxs:
                    if tc.get("dl") is None:
                        return None
                    lst = list(tc["dl"]) if lst is None else self._list_merge(lst, tc["dl"])
            pred = {}
            for d in lst or []:
                pred.update(self.deltas.get(d, {}))
            return pred
        except Exception:
            return None

    def partial_joins(self):
        out = []
        for (jn, route), j in self.joins.items():
            cyc = self.m.in_cycle(jn)
            if j["credits"] == 0 and j["arr"] and (j["fired"] == 0 or cyc):
                out.append((jn, route))
        return out

    def _check_unreachable(self, run, status):
        errs = [x for x in run.c.errors if "UnreachableJoinError" in x.get("message", "")]
        named = set((x.get("task_id"), x.get("route")) for x in errs)
        partial = set(self.partial_joins())
        if status == "failed" and not self.unhandled and not self.fail_cmds and not run.notes.get("runtime_error"):
            other = [x for x in run.c.errors if "UnreachableJoinError" not in x.get("message", "")
                     and not x.get("message", "").startswith("Execution failed")]
            if not other:
                if not partial:
                    run.viol("C02", "failed_without_cause", "workflow failed although every failure was handled, no "
                             "fail command ran, no error was logged and no join was left partially satisfied",
                             subject=None)
                for p in partial:
                    if p not in named:
                        run.viol("C07", "unreachable_join_not_named", "workflow failed with join %s route %s partially "
                                 "satisfied but no unreachable-join error names it" % p, subject=p[0])
