"""C18: the execution history is append-only and finished records never change.
Compared on every pair of consecutive persisted states of every history."""
from ovf.sim.provider import Monitor, COMPLETED


class AppendOnly(Monitor):
    name = "appendonly"

    def on_init(self, run):
        self.stats = dict(pairs=0, records_compared=0, grown=0, reopened=0)

    def on_call(self, run, ev):
        p, q = ev["pre"]["state"], ev["post"]["state"]
        self.stats["pairs"] += 1
        for key in ("contexts", "routes"):
            a, b = p[key], q[key]
            if len(b) < len(a) or b[: len(a)] != a:
                k = next((i for i in range(min(len(a), len(b))) if a[i] != b[i]), min(len(a), len(b)))
                run.viol("C18", key + "_not_append_only", "%s entry %d changed or was removed by %s%r: %r -> %r"
                         % (key, k, ev["op"], tuple(ev["args"][:3]), a[k] if k < len(a) else None,
                            b[k] if k < len(b) else None), subject=key)
        a, b = p["sequence"], q["sequence"]
        if len(b) < len(a):
            run.viol("C18", "sequence_shrank", "sequence went from %d to %d records on %s" % (len(a), len(b), ev["op"]),
                     subject="sequence")
        if len(b) > len(a):
            self.stats["grown"] += 1
        for i, (r0, r1) in enumerate(zip(a, b)):
            self.stats["records_compared"] += 1
            if r0["id"] != r1["id"] or r0["route"] != r1["route"]:
                run.viol("C18", "record_replaced", "record %d changed identity %s/%s -> %s/%s"
                         % (i, r0["id"], r0["route"], r1["id"], r1["route"]), subject=r0["id"])
                continue
            if "status" in r0 and (r0["ctxs"]["in"] != r1["ctxs"]["in"] or r0["prev"] != r1["prev"]):
                run.viol("C18", "started_record_changed", "record %d (%s, %s): context refs %r -> %r, prev %r -> %r on %s%r"
                         % (i, r0["id"], r0.get("status"), r0["ctxs"]["in"], r1["ctxs"]["in"], r0["prev"], r1["prev"],
                            ev["op"], tuple(ev["args"][:3])), subject=r0["id"])
            if r0.get("status") in COMPLETED and r0.get("next"):
                # decided: neither the status nor the decisions may change any more
                if r0["next"] != r1.get("next") or r0.get("status") != r1.get("status"):
                    run.viol("C18", "decided_record_changed", "record %d (%s): status %r -> %r, decisions %r -> %r on %s%r"
                             % (i, r0["id"], r0.get("status"), r1.get("status"), r0["next"], r1.get("next"), ev["op"],
                                tuple(ev["args"][:3])), subject=r0["id"])
            elif r0.get("status") in COMPLETED and r0.get("status") != r1.get("status"):
                # a completed record may only be reopened by a retry (before any decision exists)
                if r1.get("status") == "retrying" and not r0.get("next"):
                    self.stats["reopened"] += 1
                else:
                    run.viol("C18", "completed_record_changed", "record %d (%s): status %r -> %r on %s%r"
                             % (i, r0["id"], r0.get("status"), r1.get("status"), ev["op"], tuple(ev["args"][:3])),
                             subject=r0["id"])
            if r0.get("status") in COMPLETED and r0.get("next") and r0.get("status") == r1.get("status") and r0 != r1:
                # decided and finished: every other field (retry bookkeeping, item table, flags) stays as it was too
                keys = sorted(k for k in set(r0) | set(r1) if r0.get(k) != r1.get(k))
                if [k for k in keys if k not in ("next", "status", "ctxs", "prev", "term")]:
                    self.stats["fields_differ"] = self.stats.get("fields_differ", 0) + 1
                    run.viol("C18", "finished_record_changed", "record %d (%s, %s): field(s) %s changed on %s%r: %r -> %r"
                             % (i, r0["id"], r0.get("status"), keys, ev["op"], tuple(ev["args"][:3]),
                                {k: r0.get(k) for k in keys}, {k: r1.get(k) for k in keys}), subject=r0["id"])
            co0, co1 = r0["ctxs"].get("out"), r1["ctxs"].get("out")
            if co0 and r0.get("status") in COMPLETED and r1.get("status") in COMPLETED and co0 != co1:
                run.viol("C18", "decided_record_changed", "record %d (%s): published context refs %r -> %r"
                         % (i, r0["id"], co0, co1), subject=r0["id"])
