"""C19 (asking for next tasks is a pure query) and C16 (evaluation is pure; internals stay hidden).

* DoublePoll: every poll is issued twice; both answers and the persisted state after each are compared.
* KeyScan: no `__*` key in any stored context delta, offered (user-visible part is filtered by the
  provider, so the check is on what `ctx()` can show: published deltas) or rendered output.
* EvalPurity: a runtime contract wrapped around the expression evaluators - the data argument is
  deep-compared before and after every evaluation (counted; zero evaluations = inconclusive).
"""
import copy

from ovf.sim.provider import Monitor, canon


def offer_view(nt):
    out = []
    for t in nt or []:
        out.append(dict(id=t["id"], route=t["route"], actions=t.get("actions"), delay=t.get("delay"),
                        items_count=t.get("items_count"), concurrency=t.get("concurrency"),
                        ctx={k: v for k, v in (t.get("ctx") or {}).items() if not k.startswith("__")}))
    return out


class DoublePoll(Monitor):
    name = "doublepoll"

    def on_init(self, run):
        run.double_poll = True
        self.stats = dict(double_polls=0, nonempty=0, first_initialised_items=0)

    def on_double_poll(self, run, ev1, ev2):
        self.stats["double_polls"] += 1
        if ev1["exc"] is not None or ev2["exc"] is not None:
            return
        a, b = offer_view(ev1["ret"]), offer_view(ev2["ret"])
        if a:
            self.stats["nonempty"] += 1
        if canon(a) != canon(b):
            run.viol("C19", "poll_not_idempotent", "second get_next_tasks without an intervening event answered "
                     "differently: %s vs %s" % (canon([(t["id"], t["route"], len(t["actions"] or [])) for t in a]),
                                                canon([(t["id"], t["route"], len(t["actions"] or [])) for t in b])),
                     subject="poll")
        s1, s2 = ev1["post"], ev2["post"]
        if canon(s1["state"]) != canon(s2["state"]) or canon(s1["errors"]) != canon(s2["errors"]) or \
                s1["status"] != s2["status"]:
            run.viol("C19", "poll_changed_state", "second get_next_tasks changed the persisted state", subject="poll")
        if canon(ev1["pre"]["state"]) != canon(s1["state"]):
            self.stats["first_initialised_items"] += 1
            # the only thing a query may add is the item table of a with-items task
            p, q = copy.deepcopy(ev1["pre"]["state"]), copy.deepcopy(s1["state"])
            for s in p["staged"] + q["staged"]:
                s.pop("items", None)
            if s1["status"] == ev1["pre"]["status"] and canon(p) != canon(q):
                run.viol("C19", "poll_changed_state", "get_next_tasks changed persisted state other than a with-items "
                         "item table", subject="poll")


class KeyScan(Monitor):
    name = "keyscan"

    def on_init(self, run):
        self.stats = dict(deltas_scanned=0, outputs_scanned=0)
        self.seen = 0

    def on_call(self, run, ev):
        ctxs = ev["post"]["state"]["contexts"]
        for i in range(self.seen, len(ctxs)):
            self.stats["deltas_scanned"] += 1
            for k in ctxs[i]:
                if isinstance(k, str) and k.startswith("__"):
                    run.viol("C16", "internal_key_published", "context delta %d contains engine-internal key %s" % (i, k),
                             subject=k)
        self.seen = len(ctxs)
        out = ev["post"]["output"]
        if out:
            self.stats["outputs_scanned"] += 1
            for k in out:
                if isinstance(k, str) and k.startswith("__"):
                    run.viol("C16", "internal_key_in_output", "output contains engine-internal key %s" % k, subject=k)


class EvalPurity(object):
    """process-wide contract on YAQLEvaluator.evaluate / JinjaEvaluator.evaluate"""

    installed = None

    def __init__(self):
        self.evaluations = 0
        self.violations = []

    @classmethod
    def install(cls):
        if cls.installed is not None:
            return cls.installed
        from orquesta.expressions import jinja as jmod
        from orquesta.expressions import yql as ymod

        self = cls()
        for klass in (ymod.YAQLEvaluator, jmod.JinjaEvaluator):
            orig = klass.__dict__["evaluate"].__func__

            def make(orig, klass):
                def evaluate(kls, text, data=None):
                    if not isinstance(data, dict):
                        return orig(kls, text, data)
                    before = copy.deepcopy(data)
                    try:
                        return orig(kls, text, data)
                    finally:
                        self.evaluations += 1
                        if not _same(before, data):
                            self.violations.append(dict(evaluator=klass.__name__, text=text[:200],
                                                        changed=_diffkeys(before, data)))
                return classmethod(evaluate)

            setattr(klass, "evaluate", make(orig, klass))
        cls.installed = self
        return self

    def drain(self, run):
        for v in self.violations:
            run.viol("C16", "evaluate_mutated_context", "%s.evaluate(%r) modified the context it was given: keys %r"
                     % (v["evaluator"], v["text"], v["changed"]), subject=v["evaluator"])
        self.violations = []


def _same(a, b):
    if type(a) is not type(b):
        return False
    if isinstance(a, dict):
        if a.keys() != b.keys():
            return False
        return all(_same(a[k], b[k]) for k in a)
    if isinstance(a, (list, tuple)):
        return len(a) == len(b) and all(_same(x, y) for x, y in zip(a, b))
    if isinstance(a, float):
        return a == b or (a != a and b != b)
    return a == b


def _diffkeys(a, b):
    ks = []
    for k in set(a) | set(b):
        if k not in a or k not in b or not _same(a[k], b[k]):
            ks.append(k)
    return sorted(map(str, ks))[:6]
