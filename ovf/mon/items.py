"""C12: with-items window model.  Per (task, route, visit, attempt) the harness-side item table:
which items were offered, which are in flight, which reported what.  Assertions at every poll and
every item report."""
from ovf.sim.provider import Monitor, COMPLETED

ABENDED = ("failed", "timeout", "abandoned")


class ItemsMonitor(Monitor):
    name = "items"

    def on_init(self, run):
        self.tables = {}  # (task, route) -> table
        self.closed = []
        self.stats = dict(tasks=0, items_offered=0, windows_checked=0, max_window=0, completed_tasks=0,
                          empty_lists=0, limited=0, failed_tasks=0, results_checked=0)

    def _table(self, key, info, attempt):
        t = self.tables.get(key)
        if t is None or t["closed"] or t["attempt"] != attempt:
            self._against_definition(info)
            t = dict(n=info.get("items_count"), k=info.get("concurrency"), offered=[], inflight=set(), done={},
                     closed=False, attempt=attempt, stopped=None, task=key[0], route=key[1], first_step=info["step"],
                     rerun=False)
            self.tables[key] = t
            self.stats["tasks"] += 1
            if t["k"] is not None and t["n"] and (t["k"] if t["k"] > 0 else 1) < t["n"]:
                self.stats["limited"] += 1
        return t

    def _against_definition(self, info):
        """the number of items and the concurrency limit are taken from the definition and the context the task was
        offered with, not from what the engine says about them (`items_count` / `concurrency` of the offer)"""
        run = self.run
        m = getattr(run, "model", None)
        if m is None or info["task"] not in m.tasks or m.tasks[info["task"]].items is None:
            return
        it = m.tasks[info["task"]].items
        ctx = info.get("ctx") or {}
        lst = ctx.get(it["var"])
        if isinstance(lst, list):
            self.stats["counts_checked_against_definition"] = self.stats.get("counts_checked_against_definition", 0) + 1
            if info.get("items_count") != len(lst):
                run.viol("C12", "items_count_wrong", "task %s is offered with items_count %r, its context holds a list of %d items"
                         % (info["task"], info.get("items_count"), len(lst)), subject=info["task"])
        c = it.get("conc")
        k = ctx.get(c[1]) if isinstance(c, (tuple, list)) else c
        if c is None:
            want = None
        elif isinstance(k, int) and not isinstance(k, bool):
            want = k
        else:
            return  # an expression that does not yield an integer: C11's business
        got = info.get("concurrency")
        if (want is None) != (got is None) or (want is not None and max(1, want) != max(1, got)):
            run.viol("C12", "concurrency_wrong", "task %s is offered with concurrency %r, the definition says %r"
                     % (info["task"], got, want), subject=info["task"])
            info["concurrency"] = want  # the window is checked against the definition

    def on_offer(self, run, ev, info, action, rec):
        self.run = run
        if info.get("items_count") is None:
            return
        key = (info["task"], info["route"])
        if rec["item"] == "EMPTY":
            self.stats["empty_lists"] += 1
            t = self._table(key, info, rec["attempt"])
            t["empty"] = True
            return
        t = self._table(key, info, rec["attempt"])
        i = rec["item"]
        self.stats["items_offered"] += 1
        n = t["n"]
        if not isinstance(i, int) or i < 0 or (n is not None and i >= n):
            run.viol("C12", "item_out_of_range", "task %s offered item %r of %r" % (key[0], i, n), subject=key[0])
            return
        if i in t["offered"] and not t["rerun"]:
            run.viol("C12", "item_offered_twice", "task %s item %d offered twice in one execution attempt" % (key[0], i),
                     subject=key[0], cause=self._cause(run, key))
        if t["offered"] and not t["rerun"] and i < max(t["offered"]):
            run.viol("C12", "item_out_of_order", "task %s item %d offered after item %d" % (key[0], i, max(t["offered"])),
                     subject=key[0])
        if not t["rerun"]:
            expect_next = len(t["offered"])
            if i != expect_next:
                run.viol("C12", "item_skipped", "task %s offered item %d, next in index order is %d" % (key[0], i, expect_next),
                         subject=key[0])
        if t["rerun"] and "rerun_allowed" in t:
            if i not in t["rerun_allowed"]:
                run.viol("C12", "rerun_offered_item_that_did_not_fail", "task %s: item %d offered after a rerun although it had "
                         "succeeded (items that may run again: %r)" % (key[0], i, sorted(t["rerun_allowed"])), subject=key[0])
            if i in t["rerun_offered"]:
                run.viol("C12", "item_offered_twice", "task %s item %d offered twice after the rerun" % (key[0], i), subject=key[0])
            t["rerun_offered"].append(i)
        if t["stopped"]:
            run.viol("C12", "item_offered_after_stop", "task %s item %d offered after %s" % (key[0], i, t["stopped"]),
                     subject=key[0])
        if (run.ctl["pause_req"] or run.ctl["cancel_req"]) and ev["pre"]["status"] != "failed":
            # (once the workflow has failed, a pending pause is moot and clean-up tasks may run)
            run.viol("C12", "item_offered_after_stop", "task %s item %d offered after a pause/cancel request"
                     % (key[0], i), subject=key[0])
        t["offered"].append(i)
        t["inflight"].add(i)
        t["done"].pop(i, None)
        k = t["k"]
        self.stats["windows_checked"] += 1
        self.stats["max_window"] = max(self.stats["max_window"], len(t["inflight"]))
        if k is not None:
            lim = k if k > 0 else 1
            if len(t["inflight"]) > lim:
                run.viol("C12", "window_exceeded", "task %s has %d items offered-or-running, concurrency is %r"
                         % (key[0], len(t["inflight"]), k), subject=key[0])

    def _cause(self, run, key):
        led = getattr(run, "ledger", None)
        if led is not None and led.enabled:
            j = led.joins.get(key)
            if j and j.get("late"):
                return ["late_arrival_int_join"]
        return None

    def on_done(self, run, ev, a, status, result):
        if a["item"] is None:
            return
        key = (a["task"], a["route"])
        t = self.tables.get(key)
        if t is None:
            return
        if a["item"] == "EMPTY":
            rec = self._rec(ev["post"]["state"], key)
            has_retry = bool(rec and "retry" in rec)
            if not rec or not (rec.get("status") == "succeeded" or (rec.get("status") == "retrying" and has_retry)):
                run.viol("C12", "empty_list_not_completed", "with-items task %s over an empty list is %r after its "
                         "completion report" % (key[0], rec.get("status") if rec else None), subject=key[0])
            t["closed"] = True
            return
        i = a["item"]
        t["inflight"].discard(i)
        t["done"][i] = (status, result)
        if ev["exc"] is not None:
            return
        rec = self._rec(ev["post"]["state"], key)
        rstatus = rec.get("status") if rec else None
        if rstatus in COMPLETED or rstatus == "retrying":
            if t["inflight"]:
                run.viol("C12", "completed_with_item_in_flight", "task %s is %s while item(s) %r are still in flight"
                         % (key[0], rstatus, sorted(t["inflight"])), subject=key[0], cause=self._cause(run, key))
            failed = [j for j, (s, _) in t["done"].items() if s in ABENDED or s == "canceled"]
            alldone = t["n"] is not None and len([j for j in t["done"] if t["done"][j][0] == "succeeded"]) == t["n"]
            if rstatus == "succeeded" and (failed or not alldone):
                run.viol("C12", "succeeded_with_failed_item", "task %s succeeded with item outcomes %r of %r items"
                         % (key[0], {j: s for j, (s, _) in sorted(t["done"].items())}, t["n"]), subject=key[0],
                         cause=self._cause(run, key))
            if rstatus == "failed" and not failed:
                run.viol("C12", "failed_without_failed_item", "task %s failed although no item failed: %r"
                         % (key[0], {j: s for j, (s, _) in sorted(t["done"].items())}), subject=key[0],
                         cause=self._cause(run, key))
            t["closed"] = True
            t["final"] = rstatus
            self.stats["completed_tasks"] += 1
            if rstatus == "failed":
                self.stats["failed_tasks"] += 1
            self.closed.append(t)
        elif rstatus in ("paused", "canceled", "pausing", "canceling"):
            if rstatus in ("paused", "canceled") and t["inflight"]:
                run.viol("C12", "completed_with_item_in_flight", "task %s is %s while item(s) %r are still in flight"
                         % (key[0], rstatus, sorted(t["inflight"])), subject=key[0])

    def _rec(self, state, key):
        idx = state["tasks"].get("%s__r%s" % key)
        return state["sequence"][idx] if idx is not None else None

    def on_call(self, run, ev):
        if ev["op"] == "req" and ev["exc"] is None and ev["args"][0] in ("pausing", "paused", "canceling", "canceled"):
            pass
        if ev["op"] == "rerun" and ev["exc"] is None:
            reqs = ev["args"][0]
            pre = ev["pre"]["state"]
            for key, t in self.tables.items():
                idx = pre["tasks"].get("%s__r%s" % key)
                rec = pre["sequence"][idx] if idx is not None else {}
                if reqs is None:
                    direct = rec.get("status") in ABENDED and rec.get("term")
                    reset = False
                else:
                    mine = [r for r in reqs if r[0] == key[0] and r[1] == key[1]]
                    direct = bool(mine)
                    if direct and run.model is not None:
                        # a request for a task downstream of another requested task is collapsed into that one:
                        # the task is then executed afresh as a descendant, all items included
                        from ovf.mon.rerun import descendants
                        for r in reqs:
                            if r[0] != key[0] and key[0] in descendants(run.model, [r[0]]):
                                direct = False
                    reset = any(r[2] for r in mine)
                still_staged = any(x["id"] == key[0] and x["route"] == key[1] and "items" in x for x in pre["staged"])
                if direct and still_staged:
                    # the task itself is rerun in place: only its failed items (all with reset_items) run again
                    t["rerun"] = True
                    t["closed"] = False
                    t["stopped"] = None
                    failed = [j for j, (st, _) in t["done"].items() if st in ABENDED or st == "canceled"]
                    never = [j for j in range(t["n"] or 0) if j not in t["done"]]
                    t["rerun_allowed"] = set(range(t["n"] or 0)) if reset else set(failed) | set(never)
                    t["rerun_offered"] = []
                else:
                    t["closed"] = True  # a later execution of this task is a new one

    def on_end(self, run):
        # all n offered when nothing failed and no pause / cancel intervened
        if run.notes.get("escaped"):
            return
        for key, t in self.tables.items():
            if t.get("empty") or t["n"] is None:
                continue
            failed = [j for j, (s, _) in t["done"].items() if s != "succeeded"]
            if run.status() == "succeeded" and not failed and not run.ctl["reruns"]:
                if sorted(set(t["offered"])) != list(range(t["n"])) and t.get("final") == "succeeded":
                    run.viol("C12", "items_not_all_offered", "task %s: offered %r of %d items although nothing failed"
                             % (key[0], t["offered"], t["n"]), subject=key[0])


class ArrivalAtRunningItems(Monitor):
    """cause tag for a recorded defect (see known_findings.json, F15): a completed task has a satisfied
    transition into a with-items task that is currently running on the same route (its staged entry is
    kept for item bookkeeping and the arrival is merged into it, wiping the item table).  Computed from
    the state before the event and the recorded decision, not from the failure that follows."""
    name = "arrival_items"

    def on_init(self, run):
        self.stats = dict(arrivals_at_running_items_task=0)

    def on_call(self, run, ev):
        if ev["op"] != "done":
            return
        a = ev.get("action") or {}
        post, pre = ev["post"]["state"], ev["pre"]["state"]
        idx = post["tasks"].get("%s__r%s" % (a.get("task"), a.get("route")))
        if idx is None:
            return
        rec = post["sequence"][idx]
        busy = {}
        for s in pre["staged"]:
            if any(it.get("status") in ("running", "requested", "scheduled", "delayed", "pausing", "canceling", "resuming")
                   for it in s.get("items") or []):
                busy[(s["id"], s["route"])] = s
        if not busy:
            return
        for k, v in (rec.get("next") or {}).items():
            if v and (k.rsplit("__t", 1)[0], rec["route"]) in busy and k.rsplit("__t", 1)[0] != a.get("task"):
                self.stats["arrivals_at_running_items_task"] += 1
                run.tags.add("arrival_at_running_items_task")


ACTIVE = ("running", "requested", "scheduled", "delayed", "pausing", "paused", "pending", "canceling", "resuming", "retrying")


class RearrivalAtRunningTask(Monitor):
    """model-free cause tag for a recorded defect (known_findings.json, F20): a completed task has a satisfied
    transition into a non-join task whose previous execution ON THE ROUTE THE ARRIVAL IS STAGED ON is still active
    (or which is already staged there): the engine keys executions by (task, route), so both share one record.
    Computed from the state before the event, the recorded decision and the route of the staged arrival - not from
    the failure that follows.  (The ledger computes the same tag from the definition model where one exists; this
    monitor also serves the workloads that conduct definitions without a model, e.g. the fixture corpus.)"""
    name = "rearrival"

    def on_init(self, run):
        self.stats = dict(rearrivals_at_running_task=0)

    def on_call(self, run, ev):
        if ev["op"] != "done" or ev.get("exc") is not None:
            return
        a = ev.get("action") or {}
        post, pre = ev["post"]["state"], ev["pre"]["state"]
        idx = post["tasks"].get("%s__r%s" % (a.get("task"), a.get("route")))
        if idx is None:
            return
        rec = post["sequence"][idx]
        sat = [k for k, v in (rec.get("next") or {}).items() if v]
        if not sat:
            return
        pre_staged = set((s["id"], s["route"]) for s in pre["staged"])
        for s in post["staged"]:
            # next keys are <target>__t<k>, the staged entry's back references <completing task>__t<k> -> record index
            hit = [k for k in sat if k.rsplit("__t", 1)[0] == s["id"]
                   and (s.get("prev") or {}).get("%s__t%s" % (a.get("task"), k.rsplit("__t", 1)[1])) == idx]
            if not hit:
                continue
            try:
                if run.c.graph.has_barrier(s["id"]):
                    continue
                # by the definition alone a multi-referenced task outside a cycle gets a route of its own per arrival:
                # two executions sharing a route there is not this finding (whatever the engine's route table says)
                if run.c.spec.tasks.is_split_task(s["id"]) and not run.c.graph.in_cycle(s["id"]):
                    continue
            except Exception:
                continue
            key = (s["id"], s["route"])
            pidx = pre["tasks"].get("%s__r%s" % key)
            busy = pidx is not None and pre["sequence"][pidx].get("status") in ACTIVE
            if busy or key in pre_staged:
                self.stats["rearrivals_at_running_task"] += 1
                run.tags.add("rearrival_at_running_task")
