"""evidence/<id>.json writer; validates against the harness schema before writing."""
import json
import os

from ovf import env

SCHEMA = "/root/.vp/EVIDENCE.schema.json"


def write(prop, ev):
    os.makedirs(env.EVIDENCE, exist_ok=True)
    ev = json.loads(json.dumps(ev, default=str))
    try:
        import jsonschema

        if os.path.exists(SCHEMA):
            with open(SCHEMA) as f:
                jsonschema.validate(ev, json.load(f))
    except ImportError:
        pass
    except Exception as e:  # keep the file but say what is wrong with it
        ev["coverage"]["schema_problem"] = str(e)[:300]
    path = os.path.join(env.EVIDENCE, "%s.json" % prop)
    tmp = path + ".tmp"
    with open(tmp, "w") as f:
        json.dump(ev, f, indent=1, sort_keys=True)
    os.replace(tmp, path)
    return path
