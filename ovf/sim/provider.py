"""Provider simulator: drives a real WorkflowConductor through its public API the way StackStorm
does, records every call at the boundary, and hands each call (with the persisted state before and
after it) to the attached monitors.

Protocol obeyed (see DESIGN.md 1.1): every offered action is acknowledged with a `running` event
before the next poll; an empty with-items task is acknowledged and completed with [] in the same
step; item completions carry the provider's accumulated result list in item order; a completion is
reported at most once per acknowledged action.
"""
import copy
import hashlib
import json

from ovf import env

env.setup_path()

from orquesta import conducting, events, requests  # noqa: E402
from orquesta import exceptions as orq_exc  # noqa: E402
from orquesta import statuses as st  # noqa: E402
from orquesta.specs import native as native_specs  # noqa: E402

TERMINAL = ("succeeded", "failed", "canceled")
COMPLETED = tuple(st.COMPLETED_STATUSES)
RESTING = TERMINAL + ("paused",)


def h64(*a):
    return int(hashlib.sha256(repr(a).encode()).hexdigest()[:15], 16)


def canon(x):
    return json.dumps(x, sort_keys=True, default=str)


class Outcomes(object):
    """Outcome of an action execution as a pure function of its identity (task, item, attempt,
    loop key) and a seed, so twin runs and different schedules agree on what every action returns."""

    def __init__(self, seed=0, p_fail=0.2, overrides=None, force=None, exotic=0.0, exotic_kinds=None):
        self.seed = seed
        self.p_fail = p_fail
        self.exotic = exotic  # share of failures reported as timeout / abandoned instead of failed
        self.exotic_kinds = list(exotic_kinds or ["timeout", "abandoned"])  # ... or e.g. canceled (on the provider side)
        self.overrides = overrides or {}  # "task/item/attempt/loop" -> [status, result]
        self.force = force  # optional callable(ident) -> (status, result) | None

    def ident(self, a):
        return "%s/%s/%s/%s" % (a["task"], a["item"], a["attempt"], a.get("loop"))

    def __call__(self, a):
        ident = self.ident(a)
        if self.force is not None:
            r = self.force(a)
            if r is not None:
                if len(r) > 2 and r[2]:
                    return r[0], r[1]  # exactly this result, even None
                return r[0], (r[1] if r[1] is not None else {"v": 1, "id": ident})
        if a.get("action") in ("ovf.ok", "ovf.fail"):
            # the outcome is written into the definition itself (exhaustive decision-shape family)
            return ("succeeded" if a["action"] == "ovf.ok" else "failed"), {"v": 1, "id": ident}
        if ident in self.overrides:
            s, r = self.overrides[ident]
            return s, (r if r is not None else {"v": 1, "id": ident})
        x = h64(self.seed, "o", ident)
        status = "failed" if (x % 1000) / 1000.0 < self.p_fail else "succeeded"
        if status == "failed" and self.exotic and ((x >> 20) % 100) < 100 * self.exotic:
            status = self.exotic_kinds[(x >> 28) % len(self.exotic_kinds)]
        return status, {"v": (x >> 12) % 2, "id": ident}


class Monitor(object):
    """base: every hook is optional"""

    name = "base"

    def on_init(self, run):
        pass

    def on_call(self, run, ev):
        """after every conductor API call. ev: dict(op, args, exc, pre, post, ...)"""

    def on_offer(self, run, ev, task, action, rec):
        """an action offered by a poll (before its acknowledgement)"""

    def on_end(self, run):
        pass


class Run(object):
    def _query_noise(self):
        """read-only questions a provider may ask between events: has_next_tasks() for the workflow and for the most recent
        completed task records.  They are pure on correct code, so they cannot raise an alarm by themselves; a change that
        lets a query repopulate engine memory (a memo filled by the query path) shows in what the other monitors see next."""
        n = 0
        try:
            self.c.has_next_tasks()
            for e in self.c.workflow_state.sequence[-6:]:
                if e.get("status") in COMPLETED:
                    self.c.has_next_tasks(e["id"], e["route"])
                    n += 1
        except Exception:  # noqa
            self.counters["query_noise_exc"] = self.counters.get("query_noise_exc", 0) + 1
        self.counters["query_noise"] = self.counters.get("query_noise", 0) + n

    def __init__(self, wf, inputs=None, outcomes=None, monitors=(), model=None, double_poll=False,
                 ack_chain=False, label=None, loop_var="i", precrash=False):
        self.wf = wf
        self.inputs = copy.deepcopy(inputs) if inputs else {}
        self.model = model
        self.outcomes = outcomes or Outcomes()
        self.monitors = list(monitors)
        self.double_poll = double_poll
        self.ack_chain = ack_chain  # acknowledge with requested/scheduled before running
        self.label = label
        self.loop_var = loop_var
        self.violations = []
        self.notes = {}
        self.tags = set()
        self.parked = []  # actions waiting at the provider (pending / paused), not in flight
        self.tag_scopes = {}  # tag -> set of task names its consequences can reach (absent = the whole run)
        self.script = []  # explicit replayable ops
        self.trace = []  # compact human readable record
        self.inflight = []  # dict(task, route, item, attempt, loop, uid)
        self.offers = []  # every offered action
        self.accum = {}  # (task, route) -> {item: result}
        self.nuid = 0
        self.step = 0
        self.ncalls = 0
        self.ctl = dict(pause_req=False, cancel_req=False, reruns=0, first_terminal=None)
        self.counters = {}
        self.exc = None
        self.oplog = []
        self.record_full = False
        self.mid_poll_hook = None
        self.spec = native_specs.WorkflowSpec(copy.deepcopy(wf))
        self.c = conducting.WorkflowConductor(self.spec, inputs=copy.deepcopy(self.inputs))
        if precrash:
            # persisted and restored before anything else touched the new conductor
            self.c = conducting.WorkflowConductor.deserialize(self.c.serialize())
            self.spec = self.c.spec
        self.last = None
        self.last = self.snap()
        for m in self.monitors:
            m.on_init(self)

    # ------------------------------------------------------------------ observation helpers
    def status(self):
        return self.c.get_workflow_status()

    def snap(self):
        c = self.c
        return dict(status=c.get_workflow_status(), state=c.workflow_state.serialize(),
                    errors=copy.deepcopy(c.errors), output=c.get_workflow_output())

    def count(self, k, n=1):
        self.counters[k] = self.counters.get(k, 0) + n

    def viol(self, prop, kind, detail, subject=None, cause=None):
        # run-level cause tags (set by monitors from the case, never from the outcome) apply to
        # everything observed after them: once the engine's state has left the reference model
        # through a recorded defect, later disagreements are consequences of that defect
        # ... a tag with a scope (the affected task and what follows from it in the definition) is not attached to a
        # violation about a task outside that scope: the defect cannot have reached it
        names = set(self.model.tasks) if self.model is not None else set()

        def applies(t):
            sc = self.tag_scopes.get(t)
            return sc is None or subject not in names or subject in sc

        cause = list(cause or []) + [t for t in sorted(self.tags) if t not in (cause or []) and applies(t)]
        cause = cause or None
        self.violations.append(dict(prop=prop, kind=kind, detail=detail, subject=subject, cause=cause,
                                    step=self.step, label=self.label))

    def _log_op(self, op, extra=None):
        if not self.record_full:
            return
        full = self.c.serialize()
        o = dict(op=op, status=full["state"]["status"], full=canon(full))
        if extra is not None:
            o["extra"] = canon(extra)
        self.oplog.append(o)

    def _notify(self, ev):
        for m in self.monitors:
            m.on_call(self, ev)

    def _call(self, op, args, fn, *a, **kw):
        """one conductor API call at the boundary: call event, return event, state after"""
        self.ncalls += 1
        pre = self.last
        ev = dict(op=op, args=args, pre=pre, exc=None, ret=None, step=self.step)
        try:
            ev["ret"] = fn(*a, **kw)
        except Exception as e:  # every exception is an observation
            ev["exc"] = e
        post = self.snap()
        ev["post"] = post
        self.last = post
        if self.ctl["first_terminal"] is None and post["status"] in TERMINAL:
            self.ctl["first_terminal"] = post["status"]
        if op != "done":
            self._notify(ev)
        return ev

    # ------------------------------------------------------------------ provider operations
    def request(self, status, record=True):
        self.step += 1
        if record:
            self.script.append(["req", status])
        ev = self._call("req", [status], self.c.request_workflow_status, status)
        ok = ev["exc"] is None
        if ok:
            if status in ("pausing", "paused"):
                self.ctl["pause_req"] = True
            elif status in ("canceling", "canceled"):
                self.ctl["cancel_req"] = True
            elif status in ("running", "resuming"):
                self.ctl["pause_req"] = False
                self.ctl["task_wait_seen"] = False
                if ev["pre"]["status"] == "pausing":
                    # resumed before the workflow came to rest: a with-items task that was told to pause
                    # stays pausing and takes the workflow back to paused once its items have reported
                    self.ctl["resumed_before_rest"] = True
        self.trace.append(("req", status, "ok" if ok else type(ev["exc"]).__name__, ev["post"]["status"]))
        self._log_op(["req", status], extra=type(ev["exc"]).__name__ if ev["exc"] is not None else None)
        return ev

    def _attempt_of(self, task_id, route):
        stt = self.last["state"]
        idx = stt["tasks"].get("%s__r%s" % (task_id, route))
        if idx is None:
            return 0
        rec = stt["sequence"][idx]
        if "retry" in rec and rec.get("status") not in COMPLETED:
            return rec["retry"].get("tally", 0)
        return 0

    def poll(self, mid=None):
        """get_next_tasks + acknowledge every offered action. returns number of offered actions.
        mid: a status request that lands between the answer and the acknowledgements (replay)"""
        self.step += 1
        op = ["poll"]
        self.script.append(op)
        total = 0
        for _round in range(64):
            ev = self._call("poll", [], self.c.get_next_tasks)
            if self.double_poll and ev["exc"] is None:
                ev2 = self._call("poll2", [], self.c.get_next_tasks)
                ev2["first"] = ev
                for m in self.monitors:
                    if hasattr(m, "on_double_poll"):
                        m.on_double_poll(self, ev, ev2)
                self._query_noise()
            nt = ev["ret"] if ev["exc"] is None else []
            if ev["exc"] is not None:
                self.trace.append(("poll-EXC", repr(ev["exc"])[:200]))
                break
            if not nt:
                self.trace.append(("poll", [], ev["post"]["status"]))
                break
            again = False
            if len(op) == 1:
                # e.g. a pause request racing with the provider starting what it was offered
                st_req = mid if mid is not None else (self.mid_poll_hook(self) if self.mid_poll_hook is not None else None)
                if st_req:
                    op.append(st_req)
                    self.request(st_req, record=False)
            for t in nt:
                tid, route = t["id"], t["route"]
                ctx = {k: v for k, v in (t.get("ctx") or {}).items() if not k.startswith("__")}
                info = dict(task=tid, route=route, delay=t.get("delay"), ctx=ctx,
                            items_count=t.get("items_count"), concurrency=t.get("concurrency"),
                            nactions=len(t.get("actions") or []), step=self.step)
                if t.get("items_count") == 0:
                    rec = dict(task=tid, route=route, item="EMPTY", attempt=self._attempt_of(tid, route),
                               loop=ctx.get(self.loop_var), uid=self.nuid)
                    self.nuid += 1
                    self.offers.append(dict(rec, **info))
                    for m in self.monitors:
                        m.on_offer(self, ev, info, None, rec)
                    self.trace.append(("offer-empty", tid, route))
                    self._call("ack", [tid, route, None, "running"], self.c.update_task_state, tid, route,
                               events.ActionExecutionEvent("running"))
                    e2 = self._call("done", [tid, route, "EMPTY", "succeeded", []], self.c.update_task_state, tid,
                                    route, events.ActionExecutionEvent("succeeded", result=[]))
                    e2["action"] = rec
                    for m in self.monitors:
                        if hasattr(m, "on_done"):
                            m.on_done(self, e2, rec, "succeeded", [])
                    self._notify(e2)
                    again = True
                    total += 1
                    continue
                att = self._attempt_of(tid, route)
                for a in t["actions"]:
                    item = a.get("item_id")
                    rec = dict(task=tid, route=route, item=item, attempt=att, loop=ctx.get(self.loop_var),
                               uid=self.nuid)
                    self.nuid += 1
                    self.offers.append(dict(rec, action=a.get("action"), input=a.get("input"), **info))
                    for m in self.monitors:
                        m.on_offer(self, ev, info, a, rec)
                    self.trace.append(("offer", tid, route, item, att, t.get("delay")))
                    total += 1
                started_now = {}
                for a in t["actions"]:
                    item = a.get("item_id")
                    chain = ("requested", "scheduled", "running") if self.ack_chain is True else ("running",)
                    if self.ack_chain == "lazy":
                        chain = ("scheduled",)  # the action is queued at the provider; it reports running later
                    elif self.ack_chain == "mixed":
                        # some actions start at once, others sit requested / scheduled / delayed at the provider: executions
                        # of one task on different routes (or items of one task) are then active with different statuses
                        chain = (("running",), ("scheduled",), ("requested",), ("requested", "scheduled"), ("delayed",),
                                 ("running",))[h64(tid, route, item, self.step) % 6]
                    started_now[item] = chain[-1] == "running"
                    for s in chain:
                        evx = (events.TaskItemActionExecutionEvent(item, s) if item is not None
                               else events.ActionExecutionEvent(s))
                        ea = self._call("ack", [tid, route, item, s], self.c.update_task_state, tid, route, evx)
                        if ea["exc"] is not None:
                            self.trace.append(("ack-EXC", tid, route, item, repr(ea["exc"])[:200]))
                for r in self.offers[-len(t["actions"]):] if t["actions"] else []:
                    self.inflight.append({k: r[k] for k in ("task", "route", "item", "attempt", "loop", "uid")})
                    if r.get("action") in ("ovf.ok", "ovf.fail"):
                        self.inflight[-1]["action"] = r["action"]
                    if self.ack_chain == "mixed" and started_now.get(r["item"]):
                        self.inflight[-1]["started"] = True
            if not again:
                break
        self._log_op(["poll"], extra=[[o["task"], o["route"], o["item"], o.get("delay"), o.get("input"), o.get("ctx")]
                                      for o in self.offers[len(self.offers) - total:]] if total else [])
        if total == 0 and not self.inflight and self.exc is None:
            for m in self.monitors:
                if hasattr(m, "quiescent"):
                    m.quiescent(self, dict(post=self.last))
        return total

    def find_inflight(self, task, route, item):
        for i, a in enumerate(self.inflight):
            if a["task"] == task and a["route"] == route and a["item"] == item:
                return i
        return None

    def complete(self, i, status=None, result=None):
        """report completion of in-flight action i (outcome from the outcome function unless given)"""
        self.step += 1
        a = self.inflight[i]
        if self.ack_chain in ("lazy", "mixed") and not a.get("started"):
            a["started"] = True
            evs = (events.TaskItemActionExecutionEvent(a["item"], "running") if a["item"] is not None
                   else events.ActionExecutionEvent("running"))
            self._call("ack", [a["task"], a["route"], a["item"], "running"], self.c.update_task_state, a["task"], a["route"], evs)
        a = self.inflight.pop(i)
        if status is None:
            status, result = self.outcomes(a)
        self.script.append(["done", a["task"], a["route"], a["item"], status, result])
        if a["item"] is not None:
            key = (a["task"], a["route"])
            acc = self.accum.setdefault(key, {})
            acc[a["item"]] = result
            accl = [acc.get(j) for j in range(max(acc) + 1)]
            evx = events.TaskItemActionExecutionEvent(a["item"], status, result=result, accumulated_result=accl)
        else:
            evx = events.ActionExecutionEvent(status, result=result)
        ev = self._call("done", [a["task"], a["route"], a["item"], status, result], self.c.update_task_state,
                        a["task"], a["route"], evx)
        ev["action"] = a
        for m in self.monitors:
            if hasattr(m, "on_done"):
                m.on_done(self, ev, a, status, result)
        self._notify(ev)
        self.trace.append(("done", a["task"], a["route"], a["item"], a["attempt"], status,
                           "EXC " + repr(ev["exc"])[:160] if ev["exc"] is not None else ev["post"]["status"]))
        self._log_op(["done", a["task"], a["route"], a["item"]], extra=repr(ev["exc"])[:200] if ev["exc"] is not None else None)
        return ev

    def report_status(self, i, status):
        """a non-final status report of in-flight action i (e.g. `canceling`, `pausing`)"""
        self.step += 1
        a = self.inflight[i]
        self.script.append(["status", a["task"], a["route"], a["item"], status])
        evx = (events.TaskItemActionExecutionEvent(a["item"], status) if a["item"] is not None
               else events.ActionExecutionEvent(status))
        ev = self._call("ack", [a["task"], a["route"], a["item"], status], self.c.update_task_state, a["task"], a["route"], evx)
        self.trace.append(("status", a["task"], a["route"], a["item"], status,
                           "EXC " + repr(ev["exc"])[:160] if ev["exc"] is not None else ev["post"]["status"]))
        return ev

    # ---- actions that wait at the provider: an inquiry (`pending`) or an action paused on the provider side (`paused`)
    def park(self, i, status):
        """in-flight action i reports `pending` / `paused` and is no longer in flight"""
        ev = self.report_status(i, status)
        a = self.inflight.pop(i)
        a["parked_as"] = status
        a["started"] = True
        self.ctl["task_wait_seen"] = True  # the workflow may rest paused "following a paused or pending task" until resumed
        self.parked.append(a)
        return ev

    def unpark(self, j):
        """the inquiry is answered (the action then reports its outcome) / the paused action runs again"""
        a = self.parked.pop(j)
        a["was_parked"] = True
        self.inflight.append(a)
        i = len(self.inflight) - 1
        if a["parked_as"] == "paused":
            return self.report_status(i, "running")
        return self.complete(i)

    def reset_accum(self, task, route):
        self.accum.pop((task, route), None)

    def render(self):
        self.step += 1
        self.script.append(["render"])
        ev = self._call("render", [], self.c.render_workflow_output)
        self.trace.append(("render", "EXC " + repr(ev["exc"])[:160] if ev["exc"] is not None else ev["post"]["status"],
                           ev["post"]["output"]))
        self._log_op(["render"], extra=repr(ev["exc"])[:200] if ev["exc"] is not None else None)
        return ev

    def rerun(self, reqs=None):
        """reqs: list of (task, route, reset_items) or None for the default"""
        self.step += 1
        self.script.append(["rerun", reqs])
        objs = None
        if reqs is not None:
            objs = [requests.TaskRerunRequest.new(t, route=r, reset_items=ri) for t, r, ri in reqs]
        ev = self._call("rerun", [reqs], self.c.request_workflow_rerun, task_requests=objs)
        if ev["exc"] is None:
            self.ctl["reruns"] += 1
            self.ctl["first_terminal"] = None
            self.ctl["cancel_req"] = False
            self.ctl["pause_req"] = False
        self.trace.append(("rerun", reqs, "ok" if ev["exc"] is None else type(ev["exc"]).__name__, ev["post"]["status"]))
        self._log_op(["rerun"], extra=type(ev["exc"]).__name__ if ev["exc"] is not None else None)
        return ev

    def crash(self):
        """persist, drop the live conductor, restore from the persisted form"""
        self.step += 1
        self.script.append(["crash"])
        data = self.c.serialize()
        c2 = conducting.WorkflowConductor.deserialize(data)
        for m in self.monitors:
            if hasattr(m, "on_crash"):
                m.on_crash(self, data, c2)
        self.c = c2
        self.spec = c2.spec
        self.count("crashes")
        self.trace.append(("crash",))
        return data

    # ------------------------------------------------------------------ script replay
    def play(self, op):
        k = op[0]
        if k == "req":
            return self.request(op[1])
        if k == "poll":
            return self.poll(mid=op[1] if len(op) > 1 else None)
        if k == "done":
            i = self.find_inflight(op[1], op[2], op[3])
            if i is None:
                self.notes.setdefault("replay_divergence", []).append(op)
                return None
            return self.complete(i, op[4], op[5])
        if k == "status":
            i = self.find_inflight(op[1], op[2], op[3])
            return self.report_status(i, op[4]) if i is not None else None
        if k == "render":
            return self.render()
        if k == "rerun":
            return self.rerun([tuple(x) for x in op[1]] if op[1] is not None else None)
        if k == "crash":
            return self.crash()
        raise ValueError(op)

    def finish(self):
        for m in self.monitors:
            m.on_end(self)
        return self

    # ------------------------------------------------------------------ summaries
    def executed(self):
        """multiset of executed (task, item) over all offers, route numbers ignored"""
        out = {}
        for o in self.offers:
            k = "%s/%s/%s" % (o["task"], o["item"], o["attempt"])
            out[k] = out.get(k, 0) + 1
        return out

    def summary(self):
        return dict(status=self.status(), output=self.c.get_workflow_output(), errors=copy.deepcopy(self.c.errors),
                    executed=self.executed())

    def case(self):
        return dict(wf=self.wf, inputs=self.inputs, oseed=self.outcomes.seed, p_fail=self.outcomes.p_fail,
                    overrides=self.outcomes.overrides, script=self.script, label=self.label)


def is_rejection(e):
    return isinstance(e, (orq_exc.InvalidWorkflowStatusTransition, orq_exc.InvalidStatusTransition))
