"""Schedulers: seeded free runs with eager/lazy polling, insertion of control requests and
crashes, exhaustive enumeration of completion orders, script replay."""
import time
import copy
import random

from ovf.sim import provider
from ovf.sim.provider import Run, Outcomes, h64, TERMINAL, RESTING


class Policy(object):
    """Deterministic scheduling decisions as pure functions of the action identity (not of a random
    stream), so that twin runs that agree on the set of in-flight actions agree on the schedule."""

    def __init__(self, pseed=0, lazy_pct=0, auto_resume=True, render=True):
        self.pseed = pseed
        self.lazy_pct = lazy_pct
        self.auto_resume = auto_resume
        self.render = render

    def ident(self, a):
        return (a["task"], a["item"], a["attempt"], a.get("loop"))

    def pick(self, run):
        return min(range(len(run.inflight)), key=lambda i: (h64(self.pseed, "p", self.ident(run.inflight[i])),
                                                            run.inflight[i]["uid"]))

    def poll_after(self, run, a):
        if not self.lazy_pct:
            return True
        return h64(self.pseed, "lazy", self.ident(a)) % 100 >= self.lazy_pct


def status_mon(run):
    for m in run.monitors:
        if m.name == "status":
            return m
    return None


def poll_q(run):
    """poll; if nothing was offered and nothing is in flight this is a quiescent point (C03)"""
    return run.poll()


def run_free(run, policy, max_steps=400, hook=None, start=True, max_offers=600, max_seconds=None):
    """drive to quiescence. hook(run, phase) may inject requests / crashes; phase in
    ('before_poll', 'after_poll', 'after_done').  max_seconds: a wall-clock cap for workloads whose definitions may be
    arbitrarily expensive (wild edits); like the step cap it cuts the run short and is never a verdict"""
    if start:
        run.request("running")
    need_poll = True
    steps = 0
    resumed = 0
    t_end = (time.time() + max_seconds) if max_seconds else None
    while steps < max_steps:
        steps += 1
        if t_end is not None and time.time() > t_end:
            run.notes["max_steps"] = True
            run.notes["time_capped"] = True
            return run
        if len(run.offers) > max_offers:
            # an unbounded definition (the generated classes are bounded; wild edits may not be): cut, not a verdict
            run.notes["max_steps"] = True
            return run
        if hook:
            hook(run, "before_poll")
        if need_poll or not run.inflight:
            poll_q(run)
        if hook:
            hook(run, "after_poll")
        if not run.inflight:
            st = run.status()
            if st == "paused" and policy.auto_resume and (run.ctl["pause_req"] or run.ctl.get("resumed_before_rest")) \
                    and resumed < 8:
                resumed += 1
                run.request("resuming" if h64(policy.pseed, "res", resumed) % 2 else "running")
                need_poll = True
                continue
            break
        i = policy.pick(run)
        a = run.inflight[i]
        run.complete(i)
        if hook:
            hook(run, "after_done")
        need_poll = policy.poll_after(run, a)
    else:
        run.notes["max_steps"] = True
    if policy.render and run.status() in provider.COMPLETED and not run.inflight:
        run.render()
    return run


def play_script(run, script):
    for op in script:
        run.play(op)
    return run


def make_run(case, monitors, model=None, double_poll=False, ack_chain=False, force=None, label=None, precrash=False):
    oc = Outcomes(seed=case.get("oseed", 0), p_fail=case.get("p_fail", 0.2), overrides=case.get("overrides"),
                  force=force, exotic=case.get("exotic", 0.0), exotic_kinds=case.get("exotic_kinds"))
    return Run(copy.deepcopy(case["wf"]), inputs=case.get("inputs"), outcomes=oc, monitors=monitors, model=model,
               double_poll=double_poll, ack_chain=ack_chain, label=label or case.get("label"), precrash=precrash)


# --------------------------------------------------------------------------- exhaustive orders
def enumerate_orders(factory, max_orders=720, max_depth=40, eager=True, rng=None):
    """Stateless DFS over all completion orders of a scenario: every schedule is executed from a
    fresh conductor (factory() -> started Run).  A schedule is the list of in-flight indices chosen
    at each completion.  Returns list of (choices, run).  Beyond max_orders the remaining space is
    sampled by random walks (exhaustive flag False)."""
    results = []
    exhaustive = True
    stack = [[]]
    seen = 0
    while stack:
        prefix = stack.pop()
        run = factory()
        run.request("running")
        ok = True
        depth = 0
        choices = []
        while True:
            poll_q(run)
            if not run.inflight:
                break
            k = len(run.inflight)
            # canonical order of alternatives: by identity, so indices mean the same thing everywhere
            order = sorted(range(k), key=lambda i: (run.inflight[i]["task"], str(run.inflight[i]["item"]),
                                                    run.inflight[i]["route"], run.inflight[i]["uid"]))
            if depth < len(prefix):
                c = prefix[depth]
            else:
                c = 0
                for alt in range(k - 1, 0, -1):
                    stack.append(choices + [alt])
            if c >= k:
                ok = False
                break
            choices.append(c)
            run.complete(order[c])
            depth += 1
            if depth > max_depth:
                run.notes["max_steps"] = True
                break
        if ok:
            if run.status() in provider.COMPLETED and not run.inflight:
                run.render()
            results.append((choices, run))
            seen += 1
        if seen >= max_orders and stack:
            exhaustive = False
            break
    return results, exhaustive


def random_order_run(factory, rng, eager=True):
    run = factory()
    run.request("running")
    choices = []
    for _ in range(400):
        if eager or rng.random() < 0.6 or not run.inflight:
            poll_q(run)
        if not run.inflight:
            break
        i = rng.randrange(len(run.inflight))
        choices.append(i)
        run.complete(i)
    if run.status() in provider.COMPLETED and not run.inflight:
        run.render()
    return choices, run
