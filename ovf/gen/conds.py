"""Condition / value-expression ASTs, their YAQL and Jinja renderings, and an independent evaluator.

Nothing here imports orquesta: the evaluator is the monitors' own reading of what a condition
means, applied to what the *harness* reported (status, result) and to the context the task was
offered with.
"""

COMPLETED = ("succeeded", "failed", "timeout", "abandoned", "canceled")


# ----------------------------------------------------------------------------- conditions
def render_cond(c, lang, form=0):
    """AST -> expression text (with delimiters). form varies the ctx reference notation."""
    if c is None:
        return None
    body = _yaql(c, form) if lang == "yaql" else _jinja(c, form)
    return ("<%% %s %%>" % body) if lang == "yaql" else ("{{ %s }}" % body)


def _ctxref(v, lang, form):
    if lang == "yaql":
        return ["ctx(%s)" % v, "ctx().%s" % v, "ctx('%s')" % v, 'ctx("%s")' % v][form % 4]
    return ["ctx('%s')" % v, "ctx().%s" % v, 'ctx("%s")' % v, "ctx('%s')" % v][form % 4]


def _yaql(c, form):
    k = c[0]
    if k in ("succeeded", "failed", "completed"):
        return k + "()"
    if k == "res_eq":
        return "result().v = %d" % c[1]
    if k == "res_ne":
        return "result().v != %d" % c[1]
    if k == "ctx_lt":
        return "%s < %d" % (_ctxref(c[1], "yaql", form), c[2])
    if k == "ctx_ge":
        return "%s >= %d" % (_ctxref(c[1], "yaql", form), c[2])
    if k == "ctx_eq":
        return "%s = %s" % (_ctxref(c[1], "yaql", form), _lit(c[2]))
    if k == "and":
        return "(%s) and (%s)" % (_yaql(c[1], form), _yaql(c[2], form))
    if k == "or":
        return "(%s) or (%s)" % (_yaql(c[1], form), _yaql(c[2], form))
    if k == "not":
        return "not (%s)" % _yaql(c[1], form)
    if k == "true":
        return "true"
    if k == "false":
        return "false"
    raise ValueError(k)


def _jinja(c, form):
    k = c[0]
    if k in ("succeeded", "failed", "completed"):
        return k + "()"
    if k == "res_eq":
        return "result().v == %d" % c[1]
    if k == "res_ne":
        return "result().v != %d" % c[1]
    if k == "ctx_lt":
        return "%s < %d" % (_ctxref(c[1], "jinja", form), c[2])
    if k == "ctx_ge":
        return "%s >= %d" % (_ctxref(c[1], "jinja", form), c[2])
    if k == "ctx_eq":
        return "%s == %s" % (_ctxref(c[1], "jinja", form), _lit(c[2]))
    if k == "and":
        return "(%s) and (%s)" % (_jinja(c[1], form), _jinja(c[2], form))
    if k == "or":
        return "(%s) or (%s)" % (_jinja(c[1], form), _jinja(c[2], form))
    if k == "not":
        return "not (%s)" % _jinja(c[1], form)
    if k == "true":
        return "true"
    if k == "false":
        return "false"
    raise ValueError(k)


def _lit(v):
    if isinstance(v, str):
        return "'%s'" % v
    return str(v)


class CondError(Exception):
    """The independent evaluator cannot decide (would be a runtime expression error)."""


def eval_cond(c, status, result, ctx):
    """Independent decision of a condition. status: the task's final status for this execution."""
    if c is None:
        return True
    k = c[0]
    if k == "succeeded":
        return status == "succeeded"
    if k == "failed":
        return status == "failed"
    if k == "completed":
        return status in COMPLETED
    if k in ("res_eq", "res_ne"):
        if not isinstance(result, dict) or "v" not in result:
            raise CondError("result().v on %r" % (result,))
        return (result["v"] == c[1]) == (k == "res_eq")
    if k in ("ctx_lt", "ctx_ge", "ctx_eq"):
        if c[1] not in ctx:
            raise CondError("ctx(%s) undefined" % c[1])
        v = ctx[c[1]]
        if k == "ctx_eq":
            return v == c[2]
        if not isinstance(v, int) or isinstance(v, bool):
            raise CondError("ctx(%s) not int" % c[1])
        return v < c[2] if k == "ctx_lt" else v >= c[2]
    if k == "and":
        return eval_cond(c[1], status, result, ctx) and eval_cond(c[2], status, result, ctx)
    if k == "or":
        return eval_cond(c[1], status, result, ctx) or eval_cond(c[2], status, result, ctx)
    if k == "not":
        return not eval_cond(c[1], status, result, ctx)
    if k == "true":
        return True
    if k == "false":
        return False
    raise ValueError(k)


def cond_vars(c):
    if c is None:
        return set()
    k = c[0]
    if k in ("ctx_lt", "ctx_ge", "ctx_eq"):
        return {c[1]}
    if k in ("and", "or"):
        return cond_vars(c[1]) | cond_vars(c[2])
    if k == "not":
        return cond_vars(c[1])
    return set()


def cond_uses_result(c):
    if c is None:
        return False
    k = c[0]
    if k in ("res_eq", "res_ne"):
        return True
    if k in ("and", "or"):
        return cond_uses_result(c[1]) or cond_uses_result(c[2])
    if k == "not":
        return cond_uses_result(c[1])
    return False


# ----------------------------------------------------------------------------- value specs
# ('lit', v)            a literal JSON value (strings without expression delimiters)
# ('ref', var)          the current value of a context variable
# ('inc', var)          ctx(var) + 1
# ('cat', var, s)       ctx(var) + s   (string concatenation: the value records its own history)
# ('rid',)              result().id    (unique per action execution)
# ('res',)              result()
# ('item',)             item()         (with-items actions only)
def render_val(v, lang, form=0):
    k = v[0]
    if k == "lit":
        return v[1]
    if k == "ref":
        body = _ctxref(v[1], lang, form)
    elif k == "inc":
        body = "%s + 1" % _ctxref(v[1], lang, form)
    elif k == "cat":
        body = "%s + '%s'" % (_ctxref(v[1], lang, form), v[2])
        if lang == "jinja":
            body = "%s ~ '%s'" % (_ctxref(v[1], lang, form), v[2])
    elif k == "rid":
        body = "result().id"
    elif k == "res":
        body = "result()"
    elif k == "item":
        body = "item()"
    else:
        raise ValueError(k)
    return ("<%% %s %%>" % body) if lang == "yaql" else ("{{ %s }}" % body)


def eval_val(v, ctx, result=None, item=None):
    k = v[0]
    if k == "lit":
        return v[1]
    if k == "ref":
        if v[1] not in ctx:
            raise CondError("ctx(%s) undefined" % v[1])
        return ctx[v[1]]
    if k == "inc":
        return ctx[v[1]] + 1
    if k == "cat":
        return str(ctx[v[1]]) + v[2]
    if k == "rid":
        if not isinstance(result, dict):
            raise CondError("result().id on %r" % (result,))
        return result["id"]
    if k == "res":
        return result
    if k == "item":
        return item
    raise ValueError(k)


def val_vars(v):
    return {v[1]} if v[0] in ("ref", "inc", "cat") else set()
