"""Workflow definition model, renderer to the native YAML dict, and seeded generators.

A Model is the monitors' *own* description of a definition (tasks, ordered transitions with
condition ASTs, publishes, targets, join/with/retry/delay attributes). The generator builds a Model
first and renders the dict handed to orquesta from it, so the reference oracles never read the
engine's spec or graph objects.
"""
import copy
import hashlib
import json

from ovf.gen import conds

ENGINE_CMDS = ("continue", "noop", "fail", "retry")


class Tr(object):
    __slots__ = ("idx", "cond", "lang", "form", "pubs", "do", "do_str", "pub_str")

    def __init__(self, idx, cond=None, lang="yaql", form=0, pubs=None, do=None, do_str=False):
        self.idx = idx
        self.cond = cond
        self.lang = lang
        self.form = form
        self.pubs = pubs or []  # [(var, valspec)]
        self.do = do if do is not None else []  # [] => omitted => continue
        self.do_str = do_str  # render do as comma separated string

    def targets(self):
        return list(self.do) if self.do else ["continue"]


class Task(object):
    def __init__(self, name):
        self.name = name
        self.action = "core.noop"
        self.ainput = None  # {param: valspec}
        self.alang = "yaql"
        self.join = None  # None | 'all' | int
        self.items = None  # None | dict(var=..., conc=None|int|('expr', var), named=None|str)
        self.retry = None  # None | dict(count=int|('expr',var), delay=None|int|('expr',var), when=AST|None, lang=)
        self.delay = None  # None | int
        self.trans = []

    def edges(self):
        """(target, tr) pairs in the order the engine processes them: by target name, then
        transition position (documented: transitions are processed in the order defined)."""
        out = []
        for tr in self.trans:
            for d in tr.targets():
                out.append((d, tr))
        out.sort(key=lambda e: (e[0], e[1].idx))
        return out


class Model(object):
    def __init__(self):
        self.tasks = {}  # insertion ordered
        self.input = []  # [(name, default)]
        self.vars = []  # [(name, value)]
        self.output = []  # [(name, valspec, lang)]
        self.tags = set()

    # ------------------------------------------------------------------ structure helpers
    def inbound(self, name):
        """distinct source tasks with a transition naming `name`"""
        src = []
        for t in self.tasks.values():
            for tr in t.trans:
                if name in tr.targets() and t.name not in src:
                    src.append(t.name)
        return src

    def inbound_edges(self, name):
        n = 0
        for t in self.tasks.values():
            for tr in t.trans:
                n += tr.targets().count(name)
        return n

    def start_tasks(self):
        return sorted(n for n in self.tasks if self.inbound_edges(n) == 0)

    def reachable(self):
        seen = []
        q = list(self.start_tasks())
        while q:
            x = q.pop(0)
            if x in seen or x not in self.tasks:
                continue
            seen.append(x)
            for tr in self.tasks[x].trans:
                for d in tr.targets():
                    if d in self.tasks and d not in seen:
                        q.append(d)
        return seen

    def in_cycle(self, name):
        seen = set()
        q = [d for tr in self.tasks[name].trans for d in tr.targets() if d in self.tasks]
        while q:
            x = q.pop()
            if x == name:
                return True
            if x in seen:
                continue
            seen.add(x)
            q.extend(d for tr in self.tasks[x].trans for d in tr.targets() if d in self.tasks)
        return False

    def is_split(self, name):
        return self.tasks[name].join is None and self.inbound_edges(name) > 1

    def has_cycle(self):
        return any(self.in_cycle(n) for n in self.tasks)

    def retry_policy(self, name):
        """effective retry policy: explicit retry spec, else derived from a `retry` command"""
        t = self.tasks[name]
        pol = None
        if t.retry:
            pol = dict(count=t.retry["count"], delay=t.retry.get("delay"), when=t.retry.get("when"),
                       default_when=t.retry.get("when") is None)
        for d, tr in t.edges():
            if d == "retry":
                pol = dict(count=3, delay=None, when=tr.cond if tr.cond else ("completed",),
                           default_when=False)
        return pol

    # ------------------------------------------------------------------ rendering
    def render(self):
        wf = {"version": 1.0}
        if self.input:
            wf["input"] = [({k: copy.deepcopy(v)} if v is not _NODEFAULT else k) for k, v in self.input]
        if self.vars:
            wf["vars"] = [{k: copy.deepcopy(v)} for k, v in self.vars]
        tasks = {}
        for t in self.tasks.values():
            d = {}
            if t.delay is not None:
                d["delay"] = t.delay
            if t.join is not None:
                d["join"] = t.join
            if t.items is not None:
                w = {}
                ref = conds.render_val(("ref", t.items["var"]), t.alang)
                w["items"] = ("%s in %s" % (t.items["named"], ref)) if t.items.get("named") else ref
                c = t.items.get("conc")
                if c is not None:
                    w["concurrency"] = conds.render_val(("ref", c[1]), t.alang) if isinstance(c, tuple) else c
                d["with"] = w
            d["action"] = t.action
            if t.ainput:
                d["input"] = {k: conds.render_val(v, t.alang) for k, v in t.ainput.items()}
            if t.retry is not None:
                r = {}
                c = t.retry["count"]
                r["count"] = conds.render_val(("ref", c[1]), t.retry.get("lang", "yaql")) if isinstance(c, tuple) else c
                dl = t.retry.get("delay")
                if dl is not None:
                    r["delay"] = conds.render_val(("ref", dl[1]), t.retry.get("lang", "yaql")) if isinstance(dl, tuple) else dl
                if t.retry.get("when") is not None:
                    r["when"] = conds.render_cond(t.retry["when"], t.retry.get("lang", "yaql"))
                d["retry"] = r
            nxt = []
            for tr in t.trans:
                e = {}
                if tr.cond is not None:
                    e["when"] = conds.render_cond(tr.cond, tr.lang, tr.form)
                if tr.pubs:
                    e["publish"] = [{v: conds.render_val(s, tr.lang, tr.form)} for v, s in tr.pubs]
                if tr.do:
                    e["do"] = ", ".join(tr.do) if tr.do_str else list(tr.do)
                nxt.append(e)
            if nxt:
                d["next"] = nxt
            tasks[t.name] = d
        wf["tasks"] = tasks
        if self.output:
            wf["output"] = [{k: conds.render_val(v, lang)} for k, v, lang in self.output]
        return wf

    # ------------------------------------------------------------------ (de)serialisation
    def to_json(self):
        def tr(t):
            return dict(idx=t.idx, cond=t.cond, lang=t.lang, form=t.form, pubs=t.pubs, do=t.do, do_str=t.do_str)
        tasks = []
        for t in self.tasks.values():
            tasks.append(dict(name=t.name, action=t.action, ainput=t.ainput, alang=t.alang, join=t.join, items=t.items,
                              retry=t.retry, delay=t.delay, trans=[tr(x) for x in t.trans]))
        return dict(tasks=tasks, input=[[k, (None if v is _NODEFAULT else v), v is _NODEFAULT] for k, v in self.input],
                    vars=self.vars, output=self.output, tags=sorted(self.tags))

    @classmethod
    def from_json(cls, d):
        m = cls()
        for td in d["tasks"]:
            t = Task(td["name"])
            t.action, t.alang, t.join, t.delay = td["action"], td["alang"], td["join"], td["delay"]
            t.ainput = {k: _tup(v) for k, v in td["ainput"].items()} if td["ainput"] else None
            t.items = dict(td["items"], conc=_tup(td["items"].get("conc"))) if td["items"] else None
            if td["retry"]:
                r = dict(td["retry"])
                for k in ("count", "delay", "when"):
                    if k in r:
                        r[k] = _tup(r[k])
                t.retry = r
            for x in td["trans"]:
                t.trans.append(Tr(x["idx"], cond=_tup(x["cond"]), lang=x["lang"], form=x["form"],
                                  pubs=[(p[0], _tup(p[1])) for p in x["pubs"]], do=list(x["do"]), do_str=x["do_str"]))
            m.tasks[t.name] = t
        m.input = [(k, _NODEFAULT if nd else v) for k, v, nd in d["input"]]
        m.vars = [(k, v) for k, v in d["vars"]]
        m.output = [(k, _tup(v), l) for k, v, l in d["output"]]
        m.tags = set(d.get("tags") or [])
        return m

    def digest(self):
        return hashlib.sha256(json.dumps(self.render(), sort_keys=True, default=str).encode()).hexdigest()[:16]


_NODEFAULT = object()


def _tup(x):
    if isinstance(x, list):
        return tuple(_tup(y) for y in x)
    return x


# ----------------------------------------------------------------------------------- generators
DEFAULT_P = dict(
    nmin=2, nmax=7,
    p_join=0.5,  # chance a task with >= 2 inbound sources becomes a join
    p_intjoin=0.0,  # chance a join gets an integer barrier (N == number of inbound sources)
    p_intjoin_less=0.0,  # chance an integer barrier is smaller than the number of inbound sources
    p_items=0.12, p_retry=0.12, p_delay=0.1,
    p_fail_cmd=0.08, p_noop=0.08, p_cont=0.05, p_retry_cmd=0.0,
    p_pub=0.5, p_conflict=0.6, p_cat=0.5, p_ainput=0.25,
    p_res_cond=0.25, p_do_str=0.2, p_nodo=0.06,
    langs=("yaql", "jinja"),
    max_trans=3, max_do=3,
    xs_max=4,
    p_expr_count=0.2, p_expr_conc=0.2,
)

COND_POOL = [
    None, None,
    ("succeeded",), ("succeeded",), ("failed",), ("completed",),
    ("res_eq", 1), ("res_ne", 1),
    ("and", ("succeeded",), ("res_eq", 1)),
    ("and", ("succeeded",), ("res_ne", 1)),
    ("not", ("succeeded",)),
    ("or", ("failed",), ("res_eq", 0)),
]
COND_POOL_NORES = [c for c in COND_POOL if not conds.cond_uses_result(c)]


def gen_dag(rng, P=None, n=None):
    P = dict(DEFAULT_P, **(P or {}))
    n = n or rng.randint(P["nmin"], P["nmax"])
    m = Model()
    names = ["t%d" % i for i in range(n)]
    for nm in names:
        m.tasks[nm] = Task(nm)
    shared = ["x", "y", "z"]
    m.input = [("xs", [10, 20, 30]), ("n", 2), ("k", 2)]
    m.vars = [(v, "init." + v) for v in shared]
    uniq = 0
    # decide with-items first: conditions on result().v are not generated on those tasks
    for nm in names:
        t = m.tasks[nm]
        if rng.random() < P["p_items"]:
            conc = None
            r = rng.random()
            if r < 0.5:
                conc = rng.choice([1, 2, 3, 1, 2, 3, 0])  # a literal 0 is valid and means 1
                if rng.random() < P["p_expr_conc"]:
                    conc = ("expr", "k")
            t.items = dict(var="xs", conc=conc, named=None)
            t.action = "core.echo"
            t.alang = rng.choice(P["langs"])
            t.ainput = {"message": ("item",)}
    for i, nm in enumerate(names):
        t = m.tasks[nm]
        later = names[i + 1:]
        ntr = rng.choice([0, 1, 1, 2, 2, 3][: P["max_trans"] + 3]) if later else rng.choice([0, 0, 0, 1])
        for ti in range(ntr):
            pool = COND_POOL_NORES if (t.items is not None or rng.random() > P["p_res_cond"] * 2) else COND_POOL
            cond = rng.choice(pool)
            lang = rng.choice(P["langs"])
            do = []
            if later:
                k = rng.choice([1, 1, 2, 3][: P["max_do"] + 1])
                do = rng.sample(later, min(k, len(later)))
            r = rng.random()
            if r < P["p_fail_cmd"]:
                do.append("fail")
            elif r < P["p_fail_cmd"] + P["p_noop"]:
                do.append("noop")
            elif r < P["p_fail_cmd"] + P["p_noop"] + P["p_cont"]:
                do.append("continue")
            elif r < P["p_fail_cmd"] + P["p_noop"] + P["p_cont"] + P["p_retry_cmd"]:
                do.append("retry")
            if do and rng.random() < P["p_nodo"] and all(d in ENGINE_CMDS for d in do):
                do = []
            pubs = []
            if rng.random() < P["p_pub"]:
                for _ in range(rng.choice([1, 1, 2, 3])):
                    if rng.random() < P["p_conflict"]:
                        v = rng.choice(shared)
                    else:
                        v = "u%d" % uniq
                        uniq += 1
                        m.vars.append((v, "init." + v))
                    if any(pv == v for pv, _ in pubs):
                        continue
                    tok = "%s.%d" % (nm, ti)
                    r2 = rng.random()
                    if r2 < P["p_cat"]:
                        spec = ("cat", v, "|" + tok)
                    elif r2 < P["p_cat"] + 0.1 and t.items is None:
                        spec = ("rid",)
                    elif r2 < P["p_cat"] + 0.2:
                        spec = ("ref", rng.choice(shared))
                    else:
                        spec = ("lit", tok + "." + v)
                    pubs.append((v, spec))
            if not do and not pubs and cond is None:
                continue
            tr = Tr(len(t.trans), cond=cond, lang=lang, form=rng.randint(0, 3), pubs=pubs, do=do,
                    do_str=(rng.random() < P["p_do_str"]))
            t.trans.append(tr)
    for nm in names:
        t = m.tasks[nm]
        srcs = m.inbound(nm)
        if len(srcs) >= 2 and rng.random() < P["p_join"]:
            t.join = "all"
            if rng.random() < P["p_intjoin"]:
                t.join = len(srcs)
                if rng.random() < P["p_intjoin_less"]:
                    t.join = rng.randint(1, len(srcs) - 1) if len(srcs) > 1 else 1
        if t.items is None and rng.random() < P["p_ainput"]:
            t.alang = rng.choice(P["langs"])
            t.action = "core.echo"
            t.ainput = {"message": ("ref", rng.choice(shared))}
        if rng.random() < P["p_retry"]:
            cnt = rng.randint(0, 2)
            if rng.random() < P["p_expr_count"]:
                cnt = ("expr", "n")
            t.retry = dict(count=cnt, lang=rng.choice(P["langs"]))
            if rng.random() < 0.5:
                t.retry["delay"] = rng.randint(0, 3)
            if rng.random() < 0.4:
                t.retry["when"] = rng.choice([("failed",), ("completed",), ("succeeded",)] if t.items is not None
                                              else [("failed",), ("completed",), ("res_eq", 1), ("and", ("failed",), ("res_ne", 0))])
        if rng.random() < P["p_delay"]:
            t.delay = rng.randint(1, 5)
    if rng.random() < P.get("p_latevar", 0.0):
        # a variable that exists only once some transition has published it (not declared in vars);
        # the output references it, so rendering fails (and renders nothing for it) until then
        cands = [(t, tr) for t in m.tasks.values() for tr in t.trans if not any(v == "w" for v, _ in tr.pubs)]
        if cands:
            for t, tr in rng.sample(cands, min(len(cands), rng.randint(1, 3))):
                tr.pubs.append(("w", ("lit", "%s.%d.w" % (t.name, tr.idx))))
            m.tags.add("latevar")
    m.output = [(v, ("ref", v), rng.choice(P["langs"])) for v in shared]
    if "latevar" in m.tags:
        m.output = [("w", ("ref", "w"), rng.choice(P["langs"]))] + (m.output if rng.random() < 0.5 and not P.get("latevar_only") else [])
    # some unique variables in the output too
    for v, _ in m.vars[3:6]:
        m.output.append((v, ("ref", v), "yaql"))
    inputs = {"xs": [10 * (j + 1) for j in range(rng.randint(0, P["xs_max"]))]}
    if rng.random() < 0.5:
        inputs["n"] = rng.randint(0, 2)
    if rng.random() < 0.5:
        inputs["k"] = rng.randint(1, 3)
    elif rng.random() < P.get("p_nonpos_k", 0.15):
        inputs["k"] = rng.choice([0, -1, -2])  # concurrency <= 0 is documented to mean 1
    _tag(m)
    return m, inputs


def gen_loop(rng, P=None):
    """a dag plus one counter-bounded back edge with a sequential body"""
    P = dict(DEFAULT_P, **(P or {}))
    m, inputs = gen_dag(rng, P)
    names = list(m.tasks)
    # body: a chain b0 -> b1 -> ... -> bk appended after the dag, entered from a dag task or as a start
    k = rng.randint(1, 3)
    body = ["b%d" % i for i in range(k)]
    for nm in body:
        m.tasks[nm] = Task(nm)
    m.vars.append(("i", 0))
    bound = rng.randint(1, 3)
    for j, nm in enumerate(body):
        t = m.tasks[nm]
        if rng.random() < 0.2:
            t.retry = dict(count=rng.randint(0, 2), lang="yaql")
        if rng.random() < 0.2:
            t.items = dict(var="xs", conc=rng.choice([None, 1, 2]), named=None)
            t.action = "core.echo"
            t.ainput = {"message": ("item",)}
        lang = rng.choice(P["langs"])
        if j + 1 < len(body):
            pubs = [("x", ("cat", "x", "|%s" % nm))] if rng.random() < 0.5 else []
            t.trans.append(Tr(0, cond=("succeeded",) if rng.random() < 0.7 else None, lang=lang, pubs=pubs, do=[body[j + 1]]))
        else:
            t.trans.append(Tr(0, cond=("and", ("succeeded",), ("ctx_lt", "i", bound)), lang=lang, form=rng.randint(0, 3),
                              pubs=[("i", ("inc", "i")), ("y", ("cat", "y", "|loop"))], do=[body[0]]))
            ex = ["noop"] if rng.random() < 0.5 else []
            t.trans.append(Tr(1, cond=("and", ("succeeded",), ("ctx_ge", "i", bound)), lang=lang, form=rng.randint(0, 3),
                              pubs=[("z", ("cat", "z", "|exit"))], do=ex))
    if rng.random() < P.get("p_loop_join", 0.35):
        # replace the chain by a fork/join body: b0 -> (p0, p1) -> bj (join) -> back to b0
        for nm in body:
            del m.tasks[nm]
        body = ["b0", "p0", "p1", "bj"]
        for nm in body:
            m.tasks[nm] = Task(nm)
        lang = rng.choice(P["langs"])
        m.tasks["b0"].trans.append(Tr(0, cond=("succeeded",), lang=lang, do=["p0", "p1"]))
        for k, nm in enumerate(("p0", "p1")):
            c = rng.choice([("succeeded",), None, ("completed",), ("res_eq", 1)])
            pubs = [("x", ("cat", "x", "|%s" % nm))] if rng.random() < 0.5 else []
            m.tasks[nm].trans.append(Tr(0, cond=c, lang=rng.choice(P["langs"]), pubs=pubs, do=["bj"]))
            if rng.random() < 0.3:
                m.tasks[nm].trans.append(Tr(1, cond=("failed",), lang=lang, do=["noop"]))
        m.tasks["bj"].join = rng.choice(["all", "all", 2])
        t = m.tasks["bj"]
        t.trans.append(Tr(0, cond=("and", ("succeeded",), ("ctx_lt", "i", bound)), lang=lang, form=rng.randint(0, 3),
                          pubs=[("i", ("inc", "i")), ("y", ("cat", "y", "|loop"))], do=["b0"]))
        t.trans.append(Tr(1, cond=("and", ("succeeded",), ("ctx_ge", "i", bound)), lang=lang, form=rng.randint(0, 3),
                          pubs=[("z", ("cat", "z", "|exit"))], do=[]))
        m.tags.add("loop_join")
    if rng.random() < P.get("p_loop_head_join", 0.0) and "loop_join" not in m.tags and m.tasks[body[0]].items is None:
        # the head of the loop is a `join: 1` task: it is entered from outside and by the looping transition, either arrival
        # satisfies it (used by C15: inspection has to walk through a join that is the target of a back edge)
        m.tasks[body[0]].join = 1
        m.tags.add("loop_head_join")
    if rng.random() < P.get("p_loop_items_change", 0.0) and "loop_join" not in m.tags:
        # a with-items task in the body whose list is replaced by the looping transition: every pass has its own item count
        first = m.tasks[body[0]]
        if first.items is None:
            first.items = dict(var="xs", conc=rng.choice([None, 1, 2]), named=None)
            first.action = "core.echo"
            first.ainput = {"message": ("item",)}
            first.retry = None
        m.input.append(("xs2", [7, 8, 9, 10]))
        inputs["xs2"] = [70 + q for q in range(rng.choice([0, 1, 3, 4, 5]))]
        m.tasks[body[-1]].trans[0].pubs.append(("xs", ("ref", "xs2")))
        m.tags.add("loop_items_change")
        if bound % 2 == 1 and first.items is not None:
            # ... and whose concurrency is an expression over a variable that the looping transition lowers: every pass has
            # its own window (decided by `bound`, no extra draw from the generator's random stream)
            first.items["conc"] = ("expr", "k")
            m.tasks[body[-1]].trans[0].pubs.append(("k", ("lit", 1)))
            m.tags.add("loop_conc_change")
    if rng.random() < P.get("p_loop_count_changes", 0.3):
        # retry count taken from a variable that the loop itself lowers between visits
        first = m.tasks[body[0]]
        if first.items is None:
            first.retry = dict(count=("expr", "n"), lang=rng.choice(P["langs"]))
            if rng.random() < 0.4:
                first.retry["delay"] = rng.randint(0, 2)
            m.tasks[body[-1]].trans[0].pubs.append(("n", ("lit", 0)))
    if rng.random() < P.get("p_loop_fork", 0.35):
        # the looping transition also forks to a task outside the loop that the exit transition reaches too
        last = m.tasks[body[-1]]
        for nm in ("rep", "arch"):
            m.tasks[nm] = Task(nm)
        last.trans[0].do = list(last.trans[0].do) + ["rep"]
        if rng.random() >= P.get("p_loop_fork_single", 0.0):
            last.trans[1].do = [d for d in last.trans[1].do if d != "noop"] + ["rep"]
        else:
            m.tags.add("loop_fork_single")  # the outside task has a single inbound transition: every pass shares its route
        m.tasks["rep"].trans.append(Tr(0, cond=rng.choice([("succeeded",), None]), lang=rng.choice(P["langs"]),
                                       pubs=[("z", ("cat", "z", "|rep"))] if rng.random() < 0.5 else [], do=["arch"]))
        m.tags.add("loop_fork")
        if rng.random() < P.get("p_loop_fork_join", 0.0):
            # ... and that outside task is a `join: all` which also waits for a slow task started before the loop: every pass
            # arrives again at the still waiting join (the newest arrival of the looping task is what it must see)
            m.tasks["slow"] = Task("slow")
            m.tasks["slow"].trans.append(Tr(0, cond=None, lang=rng.choice(P["langs"]),
                                            pubs=[("z", ("cat", "z", "|slow"))] if rng.random() < 0.5 else [], do=["rep"]))
            m.tasks["rep"].join = "all"
            m.tags.add("loop_fork_join")
    # single entry into the loop: from one non-items dag task on success, or as its own start
    cands = [n for n in names]
    if cands:
        src = m.tasks[rng.choice(cands)]
        src.trans.append(Tr(len(src.trans), cond=("succeeded",), lang="yaql", do=[body[0]]))
    if cands and "loop_join" not in m.tags and rng.random() < P.get("p_loop_second_entry", 0.0):
        # a second way into the loop (multi-entry cycle): another task of the dag part also leads to a body task.  Passes
        # that overlap in time collide on (task, route) (finding F20, tagged by its cause); passes one after the other
        # are lawful and fully checked
        others = [n for n in cands if n != src.name and m.tasks[n].items is None]
        if others:
            src2 = m.tasks[rng.choice(others)]
            src2.trans.append(Tr(len(src2.trans), cond=rng.choice([("succeeded",), None]), lang=rng.choice(P["langs"]),
                                 pubs=[("x", ("cat", "x", "|e2"))] if rng.random() < 0.5 else [], do=[rng.choice(body[:2])]))
            m.tags.add("loop_multi_entry")
    m.output.append(("i", ("ref", "i"), "yaql"))
    _tag(m)
    m.tags.add("loop")
    return m, inputs


def _tag(m):
    tags = set(t for t in m.tags if t in ("latevar", "loop", "loop_join", "loop_fork", "loop_fork_single", "loop_multi_entry", "loop_items_change", "loop_conc_change", "loop_head_join", "loop_fork_join"))
    for t in m.tasks.values():
        if t.join is not None:
            tags.add("join")
            if t.join != "all":
                tags.add("intjoin")
                if t.join < len(m.inbound(t.name)):
                    tags.add("intjoin_less")
        if t.items is not None:
            tags.add("items")
        if t.retry is not None:
            tags.add("retry")
        if t.delay is not None:
            tags.add("delay")
        if len([tr for tr in t.trans]) >= 2:
            tags.add("decision")
        for tr in t.trans:
            if len([d for d in tr.targets() if d not in ENGINE_CMDS]) >= 2:
                tags.add("fork")
            for d in tr.targets():
                if d in ENGINE_CMDS:
                    tags.add("cmd:" + d)
            if tr.pubs:
                tags.add("publish")
        if m.is_split(t.name):
            tags.add("split")
    m.tags = tags
    return tags


# ----------------------------------------------------------------------------------- exhaustive small shapes
_SHAPES = {}


def shape_family(n=4):
    """every acyclic definition over n tasks t0..t(n-1) (edges i -> j for i < j, `join: all` wherever >= 2 tasks lead
    to a task), every way of grouping a task's outgoing edges into ONE transition or one transition per target, and
    every choice, per transition, of publishing the shared variable x (concatenating its own tag) or nothing; roots
    additionally publish a variable of their own.  At least one join.  Returned as a list of compact descriptions."""
    if n in _SHAPES:
        return _SHAPES[n]
    pairs = [(i, j) for i in range(n) for j in range(i + 1, n)]
    fam = []
    for mask in range(1, 1 << len(pairs)):
        edges = [p for b, p in enumerate(pairs) if mask >> b & 1]
        inb = {j: [i for i, jj in edges if jj == j] for j in range(n)}
        if not any(len(v) >= 2 for v in inb.values()):
            continue
        out = {i: [j for ii, j in edges if ii == i] for i in range(n)}
        multi = [i for i in range(n) if len(out[i]) >= 2]
        for gmask in range(1 << len(multi)):
            trans = []  # (source, [targets])
            for i in range(n):
                if not out[i]:
                    continue
                if i in multi and not (gmask >> multi.index(i) & 1):
                    trans.append((i, list(out[i])))
                else:
                    trans.extend((i, [j]) for j in out[i])
            for pmask in range(1 << len(trans)):
                fam.append((n, tuple(edges), tuple((s, tuple(t)) for s, t in trans), pmask))
    _SHAPES[n] = fam
    return fam


def gen_shape(idx, n=4, literal=False):
    fam = shape_family(n)
    n, edges, trans, pmask = fam[idx % len(fam)]
    m = Model()
    m.input = [("xs", [10, 20, 30]), ("n", 2), ("k", 2)]
    m.vars = [("x", "init.x")]
    inb = {j: [i for i, jj in edges if jj == j] for j in range(n)}
    for i in range(n):
        t = Task("t%d" % i)
        if len(inb[i]) >= 2:
            t.join = "all"
        m.tasks[t.name] = t
    roots = [i for i in range(n) if not inb[i]]
    for i in roots:
        m.vars.append(("r%d" % i, "init.r%d" % i))
    for k, (s, tg) in enumerate(trans):
        t = m.tasks["t%d" % s]
        pubs = []
        if pmask >> k & 1:
            if literal:
                # the same few constants published again and again: identical context entries recur along a path
                pubs.append(("x", ("lit", ["on", "off"][(s + len(t.trans)) % 2])))
            else:
                pubs.append(("x", ("cat", "x", "|t%d.%d" % (s, len(t.trans)))))
        if s in roots and not t.trans:
            pubs.append(("r%d" % s, ("lit", "t%d.r" % s)))
        t.trans.append(Tr(len(t.trans), cond=None, lang=("yaql", "jinja")[(s + k) % 2], pubs=pubs, do=["t%d" % j for j in tg]))
    m.output = [(v, ("ref", v), ("yaql", "jinja")[q % 2]) for q, (v, _) in enumerate(m.vars)]
    m.tags |= {"join", "shape", "publish"}
    if any(len(tg) > 1 for _, tg in trans) or len(roots) > 1:
        m.tags.add("fork")
    return m, {}


def cshape_family(n=4):
    """decision shapes: every acyclic edge set over n tasks with at least one join x a condition (succeeded / failed)
    per edge x an outcome (succeeds / fails) per task.  Tasks whose outcome cannot matter (no outgoing edge) only
    succeed.  The outcome is part of the definition (action name ovf.ok / ovf.fail, see sim.provider.Outcomes)."""
    key = ("c", n)
    if key in _SHAPES:
        return _SHAPES[key]
    pairs = [(i, j) for i in range(n) for j in range(i + 1, n)]
    fam = []
    for mask in range(1, 1 << len(pairs)):
        edges = [p for b, p in enumerate(pairs) if mask >> b & 1]
        inb = {j: [i for i, jj in edges if jj == j] for j in range(n)}
        if not any(len(v) >= 2 for v in inb.values()):
            continue
        srcs = sorted(set(i for i, _ in edges))
        for cmask in range(1 << len(edges)):
            for omask in range(1 << len(srcs)):
                fam.append((n, tuple(edges), cmask, tuple(srcs), omask))
    _SHAPES[key] = fam
    return fam


def gen_cshape(idx, n=4):
    fam = cshape_family(n)
    n, edges, cmask, srcs, omask = fam[idx % len(fam)]
    m = Model()
    m.input = [("xs", [10, 20, 30]), ("n", 2), ("k", 2)]
    m.vars = [("x", "init.x")]
    inb = {j: [i for i, jj in edges if jj == j] for j in range(n)}
    for i in range(n):
        t = Task("t%d" % i)
        if len(inb[i]) >= 2:
            t.join = "all"
        fails = i in srcs and (omask >> srcs.index(i) & 1)
        t.action = "ovf.fail" if fails else "ovf.ok"
        m.tasks[t.name] = t
    for k, (s, j) in enumerate(edges):
        t = m.tasks["t%d" % s]
        cond = ("failed",) if cmask >> k & 1 else ("succeeded",)
        t.trans.append(Tr(len(t.trans), cond=cond, lang=("yaql", "jinja")[k % 2],
                          pubs=[("x", ("cat", "x", "|t%d.%d" % (s, len(t.trans))))], do=["t%d" % j]))
    m.output = [("x", ("ref", "x"), "yaql")]
    m.tags |= {"join", "cshape", "publish", "decision"}
    if len([i for i in range(n) if not inb[i]]) > 1 or any(len([1 for s, _ in edges if s == i]) > 1 for i in range(n)):
        m.tags.add("fork")
    return m, {}


def gen_rwait(idx):
    """small family for C13: f parallel tasks lead into a `join: N` task (N < f) that fails and has a retry policy with
    a delay of its own; with lazy polls the remaining branches arrive while the join waits for its retry"""
    combos = [(f, n, cnt, rd, td) for f in (2, 3) for n in range(1, f) for cnt in (1, 2) for rd in (0, 2, 7) for td in (None, 3)]
    f, n, cnt, rd, td = combos[idx % len(combos)]
    m = Model()
    m.input = [("xs", [10, 20, 30]), ("n", 2), ("k", 2)]
    m.vars = [("x", "init.x")]
    j = Task("j")
    j.join = n
    j.action = "ovf.fail"
    j.retry = dict(count=cnt, delay=rd, lang="yaql")
    j.delay = td
    for i in range(f):
        t = Task("a%d" % i)
        t.action = "ovf.ok"
        t.trans.append(Tr(0, cond=("succeeded",), lang=("yaql", "jinja")[i % 2], pubs=[("x", ("cat", "x", "|a%d" % i))], do=["j"]))
        m.tasks[t.name] = t
    m.tasks["j"] = j
    m.output = [("x", ("ref", "x"), "yaql")]
    m.tags |= {"join", "fork", "rwait", "retry"}
    return m, {}


def cmd_family():
    """engine commands beside each other: a task t1 (behind t0, which publishes) with one or two transitions, each with a
    condition (none / succeeded / failed), a do-list from {nothing (implicit continue), continue, noop, fail, noop+fail,
    t2+fail, t2} and with or without a publish, for both outcomes of t1"""
    if "cmd" in _SHAPES:
        return _SHAPES["cmd"]
    conds = [None, ("succeeded",), ("failed",)]
    dos = [[], ["continue"], ["noop"], ["fail"], ["noop", "fail"], ["t2", "fail"], ["t2"]]
    one = [(c, d, p) for c in range(3) for d in range(len(dos)) for p in (0, 1)]
    fam = [(o, (a,)) for o in (0, 1) for a in one] + [(o, (a, b)) for o in (0, 1) for a in one for b in one]
    _SHAPES["cmd"] = fam
    _SHAPES["cmd_tables"] = (conds, dos)
    return fam


def gen_cmds(idx):
    fam = cmd_family()
    conds, dos = _SHAPES["cmd_tables"]
    outcome, trs = fam[idx % len(fam)]
    m = Model()
    m.input = [("xs", [10, 20, 30]), ("n", 2), ("k", 2)]
    m.vars = [("x", "init.x"), ("y", "init.y")]
    t0, t1, t2 = Task("t0"), Task("t1"), Task("t2")
    t0.action = "ovf.ok"
    t0.trans.append(Tr(0, cond=("succeeded",), lang="yaql", pubs=[("x", ("cat", "x", "|t0"))], do=["t1"]))
    t1.action = "ovf.fail" if outcome else "ovf.ok"
    for k, (c, d, p) in enumerate(trs):
        pubs = [("y", ("cat", "y", "|t1.%d" % k))] if p else []
        do = list(dos[d])
        if not do and not pubs:
            do = ["continue"]
        t1.trans.append(Tr(k, cond=conds[c], lang=("yaql", "jinja")[k % 2], pubs=pubs, do=do))
    t2.action = "ovf.ok"
    for t in (t0, t1, t2):
        m.tasks[t.name] = t
    if not any("t2" in tr.do for tr in t1.trans):
        del m.tasks["t2"]
    m.output = [("x", ("ref", "x"), "yaql"), ("y", ("ref", "y"), "jinja")]
    _tag(m)
    m.tags.add("cmds")
    return m, {}


def gen_chain(idx):
    """a chain of 2-4 tasks that publish the same variable one after the other (alternating on / off, always the same value,
    or distinct values) and a concurrent side task that publishes that variable, another one, or nothing; both end in a
    `join: all` task that publishes what it saw.  Identical context entries recur along the chain."""
    combos = [(k, pat, side) for k in (2, 3, 4) for pat in ("alternate", "same", "distinct") for side in ("on", "off", "other", "none")]
    k, pat, side = combos[idx % len(combos)]
    m = Model()
    m.input = [("xs", [10, 20, 30]), ("n", 2), ("k", 2)]
    m.vars = [("flag", "init"), ("other", "init.other"), ("seen", "unset")]
    names = ["a%d" % i for i in range(k)]
    for i, nm in enumerate(names):
        t = Task(nm)
        t.action = "ovf.ok"
        val = {"alternate": ["on", "off"][i % 2], "same": "on", "distinct": "v%d" % i}[pat]
        t.trans.append(Tr(0, cond=None, lang=("yaql", "jinja")[i % 2], pubs=[("flag", ("lit", val))], do=[names[i + 1] if i + 1 < k else "j"]))
        m.tasks[nm] = t
    c = Task("c")
    c.action = "ovf.ok"
    pubs = {"on": [("flag", ("lit", "on"))], "off": [("flag", ("lit", "off"))], "other": [("other", ("lit", "from_c"))], "none": []}[side]
    c.trans.append(Tr(0, cond=None, lang="yaql", pubs=pubs, do=["j"]))
    m.tasks["c"] = c
    j = Task("j")
    j.join = "all"
    j.action = "ovf.ok"
    j.trans.append(Tr(0, cond=None, lang="yaql", pubs=[("seen", ("ref", "flag"))], do=[]))
    m.tasks["j"] = j
    m.output = [("flag", ("ref", "flag"), "yaql"), ("other", ("ref", "other"), "jinja"), ("seen", ("ref", "seen"), "yaql")]
    _tag(m)
    m.tags |= {"chain", "join", "fork", "publish"}
    return m, {}


def mcycle_family():
    return [(k, body, bound, shared, fork) for k in (2, 3) for body in ("self", "pair") for bound in (0, 1)
            for shared in (False, True) for fork in (False, True)]


def gen_mcycle(idx):
    """multi-entry cycles: k parallel entry tasks each publish a variable of their own (and optionally append to a shared
    one) on their transition to the same task `p`, which is in a cycle (a transition to itself, or p -> q -> p) whose
    condition allows `bound` further passes.  `p` is not a join and is not split (it is in a cycle): it runs once per
    arrival on the same route.  Passes that overlap in time collide on (task, route) (finding F20, tagged by its cause);
    passes one after the other are lawful and fully checked - with every completion order both kinds occur."""
    fam = mcycle_family()
    k, body, bound, shared, fork = fam[idx % len(fam)]
    m = Model()
    m.input = [("xs", [10, 20, 30]), ("n", 2), ("k", 2)]
    m.vars = [("i", 0), ("x", "init")] + [("v%d" % q, "unset") for q in range(k)]
    ents = ["e%d" % q for q in range(k)]
    if fork:
        r = Task("r")
        r.action = "ovf.ok"
        r.trans.append(Tr(0, cond=("succeeded",), lang="yaql", do=list(ents)))
        m.tasks["r"] = r
    for q, nm in enumerate(ents):
        t = Task(nm)
        t.action = "ovf.ok"
        pubs = [("v%d" % q, ("lit", "from_%s" % nm))]
        if shared:
            pubs.append(("x", ("cat", "x", "|%s" % nm)))
        t.trans.append(Tr(0, cond=("succeeded",), lang=("yaql", "jinja")[q % 2], pubs=pubs, do=["p"]))
        m.tasks[nm] = t
    p = Task("p")
    p.action = "ovf.ok"
    m.tasks["p"] = p
    last = p
    if body == "pair":
        qq = Task("q")
        qq.action = "ovf.ok"
        m.tasks["q"] = qq
        p.trans.append(Tr(0, cond=("succeeded",), lang="yaql", do=["q"]))
        last = qq
    last.trans.append(Tr(len(last.trans), cond=("and", ("succeeded",), ("ctx_lt", "i", bound)), lang="yaql",
                         pubs=[("i", ("inc", "i"))] + ([("x", ("cat", "x", "|loop"))] if shared else []), do=["p"]))
    m.output = [("v%d" % q, ("ref", "v%d" % q), ("yaql", "jinja")[q % 2]) for q in range(k)] + [("x", ("ref", "x"), "yaql"), ("i", ("ref", "i"), "yaql")]
    _tag(m)
    m.tags |= {"loop", "loop_multi_entry", "publish", "mcycle"}
    return m, {}


def remloop_family():
    return [(conc, bound, via, ok_next) for conc in (None, 1, 2) for bound in (1, 2) for via in ("fix", "self")
            for ok_next in (False, True)]


def gen_remloop(idx):
    """remediation loops around a with-items task: T (items over xs, optional concurrency) fails when an item fails; its
    failure transition counts the pass and leads back to T - directly or through a plain task `fix` - at most `bound`
    times; success leads on to `done` (or ends).  Every visit of T is a new execution with all of its items."""
    fam = remloop_family()
    conc, bound, via, ok_next = fam[idx % len(fam)]
    m = Model()
    m.input = [("xs", [10, 20, 30]), ("n", 2), ("k", 2)]
    m.vars = [("i", 0), ("x", "init")]
    init = Task("init")
    init.action = "ovf.ok"
    init.trans.append(Tr(0, cond=("succeeded",), lang="yaql", do=["T"]))
    m.tasks["init"] = init
    t = Task("T")
    t.items = dict(var="xs", conc=conc, named=None)
    t.action = "core.echo"
    t.ainput = {"message": ("item",)}
    back = "fix" if via == "fix" else "T"
    t.trans.append(Tr(0, cond=("and", ("failed",), ("ctx_lt", "i", bound)), lang="yaql",
                      pubs=[("i", ("inc", "i")), ("x", ("cat", "x", "|again"))], do=[back]))
    if ok_next:
        t.trans.append(Tr(1, cond=("succeeded",), lang="jinja", pubs=[("x", ("cat", "x", "|ok"))], do=["done"]))
        d = Task("done")
        d.action = "ovf.ok"
    m.tasks["T"] = t
    if via == "fix":
        f = Task("fix")
        f.action = "ovf.ok"
        f.trans.append(Tr(0, cond=("succeeded",), lang="yaql", do=["T"]))
        m.tasks["fix"] = f
    if ok_next:
        m.tasks["done"] = d
    m.output = [("x", ("ref", "x"), "yaql"), ("i", ("ref", "i"), "yaql")]
    _tag(m)
    m.tags |= {"loop", "items", "remloop"}
    return m, {}
