"""C20 - every documented shorthand means exactly its long form (long-form / shorthand twin)."""
import copy
import json
import random

from ovf import workloads
from ovf.props.common import batches, scale, ASSUME_SIM
from ovf.sim import explore
from ovf.sim.provider import canon, h64
from ovf.mon import purity

from orquesta.composers import native as composer
from orquesta.specs import native as native_specs

LEVEL = "exploration"
TECHNIQUE = "runtime monitoring: relational twin - a generated long-form definition and its rendering in shorthand notations are inspected, composed and conducted under the same history; verdicts, graphs, offers, published contexts and output compared"
RULE = ("generated long-form definitions (action input mappings, publish lists, do lists incl. `continue`, with mappings) "
        "over the value grammar expressible in both notations: integers incl. negative and > 64 bit, decimals, booleans "
        "(rendered in any letter case), null, strings with spaces, `=`, ` in `, commas, semicolons, the other quote "
        "character, look-alikes of numbers/booleans/null, empty and padded strings, quoted JSON objects, YAQL and Jinja "
        "expressions; each eligible position is rendered in shorthand by coin flip (inline action parameters, inline "
        "publish, comma-separated do with and without blanks, omitted do, string with-items incl. named items); compared: "
        "inspection verdict, composed graph, every offered action and input, every published context delta, errors, "
        "status and output under the same deterministic history; non-trivial = at least 2 positions rendered in "
        "shorthand and at least one quoted or JSON value among them; distinct = (long form, shorthand) digest")
ASSUMPTIONS = ASSUME_SIM + ["values not expressible in the inline notation (lists, bare words, strings containing both quote characters, "
                            "strings that are themselves JSON objects) are outside the property and not generated"]

STRINGS = ["a", "hello world", "k=v", "a in b", "it's", 'say "hi"', "5", "-1.5", "true", "False", "null", "", " padded ",
           "a,b", "a, b", "semi;colon", "{notjson}", "x=1 y=2", "tab\there", "ünï cødé", "ends with quote'", "'starts", '"dq',
           "100%", "back\\slash", "[1, 2]", "a=\"b\"", "two\nlines", "trailing newline\n"]
OBJS = [{"a": 1}, {"k": "v w", "n": [1, 2]}, {}, {"nested": {"x": None, "y": True}}, {"s": "with = and , inside"}]
EXPRS = ["<% ctx(x) %>", "{{ ctx('y') }}", "<% ctx(x) + 1 %>", "{{ ctx('y') ~ '!' }}", "<% ctx().y %>"]
NUMS = [0, 5, -3, 12345678901234567890, -99999999999999999999, 1.5, -0.25, 100.0, 0.001]


def gen_value(rng):
    r = rng.random()
    if r < 0.22:
        return rng.choice(NUMS)
    if r < 0.32:
        return rng.choice([True, False])
    if r < 0.38:
        return None
    if r < 0.68:
        return rng.choice(STRINGS)
    if r < 0.8:
        return copy.deepcopy(rng.choice(OBJS))
    return rng.choice(EXPRS)


def gen_value_simple(rng):
    return rng.choice([0, 1, "again", True, None, 2.5, "x y"])


def expressible(v):
    if isinstance(v, str):
        if '"' in v and "'" in v:
            return False
        if v.startswith("<%") or v.startswith("{{"):
            return True
        s = v.strip()
        if len(s) > 1 and s[0] == "{" and s[-1] == "}":
            try:
                json.loads(s)
                return False
            except ValueError:
                return True
        return True
    if isinstance(v, dict):
        return "'" not in json.dumps(v)
    return isinstance(v, (int, float, bool)) or v is None


def token(v, rng):
    """shorthand token of a value"""
    if isinstance(v, bool):
        return rng.choice(["true", "True", "TRUE"] if v else ["false", "False", "FALSE"])
    if v is None:
        return "null"
    if isinstance(v, int):
        return str(v)
    if isinstance(v, float):
        s = repr(v)
        return s if "e" not in s and "." in s else "%f" % v
    if isinstance(v, dict):
        return "'%s'" % json.dumps(v)
    if v.startswith("<%") or v.startswith("{{"):
        return v if rng.random() < 0.7 else '"%s"' % v if '"' not in v else "'%s'" % v
    if '"' not in v and ("'" in v or rng.random() < 0.6):
        return '"%s"' % v
    return "'%s'" % v


def gen_long(rng):
    n = rng.randint(2, 5)
    names = ["t%d" % i for i in range(n)]
    wf = {"version": 1.0, "input": [{"xs": [1, 2]}], "vars": [{"x": 7}, {"y": "why"}], "tasks": {}, "output": []}
    pubvars = []
    for i, nm in enumerate(names):
        t = {"action": "core.echo"}
        inp = {}
        for k in range(rng.choice([0, 1, 2, 3])):
            v = gen_value(rng)
            if expressible(v):
                inp["p%d" % k] = v
        if inp:
            t["input"] = inp
        else:
            t["action"] = "core.noop"
        if rng.random() < 0.25:
            t["with"] = {"items": rng.choice(["<% ctx(xs) %>", "i in <% ctx(xs) %>", "{{ ctx('xs') }}",
                                               "a, b in <% zip(ctx(xs), ctx(xs)) %>"])}
            if rng.random() < 0.4:
                t["with"]["concurrency"] = rng.randint(1, 2)
        later = names[i + 1:]
        trs = []
        for ti in range(rng.choice([0, 1, 1, 2])):
            tr = {}
            if rng.random() < 0.5:
                tr["when"] = rng.choice(["<% succeeded() %>", "{{ succeeded() }}", "<% failed() %>"])
            pubs = []
            for k in range(rng.choice([0, 0, 1, 2, 3])):
                v = gen_value(rng)
                if expressible(v):
                    name = "v%d_%d_%d" % (i, ti, k)
                    pubs.append({name: v})
                    pubvars.append(name)
            if len(pubs) >= 2 and rng.random() < 0.25:
                # the same name assigned twice in one publish, with a reader of it in between
                first = list(pubs[0])[0]
                pubs.insert(1, {"r%d_%d" % (i, ti): "<%% ctx(%s) %%>" % first})
                again = [x for x in (0, 1, "again", True, 2.5, "x y") if {first: x} not in pubs]
                pubs.append({first: rng.choice(again)})  # (an identical entry twice is refused by the long form's schema)
                pubvars.append("r%d_%d" % (i, ti))
            if pubs:
                tr["publish"] = pubs
            do = rng.sample(later, min(len(later), rng.choice([0, 1, 1, 2]))) if later else []
            if rng.random() < 0.2:
                do.append(rng.choice(["noop", "continue"]))
            tr["do"] = do if do else ["continue"]
            trs.append(tr)
        if trs:
            t["next"] = trs
        wf["tasks"][nm] = t
    wf["vars"] += [{v: "unset"} for v in pubvars]
    wf["output"] = [{v: "<%% ctx(%s) %%>" % v} for v in pubvars[:8]] or [{"x": "<% ctx(x) %>"}]
    return wf


def to_short(wf, rng):
    """render eligible positions in shorthand; returns (wf2, list of positions converted)"""
    w = copy.deepcopy(wf)
    conv = []
    for nm, t in w["tasks"].items():
        if "input" in t and rng.random() < 0.7:
            sep = rng.choice([" ", "  "])
            t["action"] = t["action"] + " " + sep.join("%s=%s" % (k, token(v, rng)) for k, v in t["input"].items())
            conv.append((nm, "action", [type(v).__name__ for v in t["input"].values()]))
            del t["input"]
        if "with" in t and "concurrency" not in t["with"] and rng.random() < 0.7:
            t["with"] = t["with"]["items"]
            conv.append((nm, "with", []))
        for tr in t.get("next", []):
            if "publish" in tr and rng.random() < 0.7:
                sep = rng.choice([" ", "  ", ", ", "; "][:2])
                vals = [list(p.items())[0] for p in tr["publish"]]
                tr["publish"] = sep.join("%s=%s" % (k, token(v, rng)) for k, v in vals)
                conv.append((nm, "publish", [type(v).__name__ for _, v in vals]))
            if tr.get("do") == ["continue"] and len(tr) > 1 and rng.random() < 0.6:
                del tr["do"]
                conv.append((nm, "do-omitted", []))
            elif "do" in tr and rng.random() < 0.6:
                tr["do"] = rng.choice([", ", ",", " , ", " ,", ",  "]).join(tr["do"])
                if rng.random() < 0.2:
                    tr["do"] = " " + tr["do"] + " "
                conv.append((nm, "do-string", []))
    return w, conv


def observe(wf, seed):
    """everything the property compares, for one definition"""
    o = {}
    try:
        spec = native_specs.WorkflowSpec(copy.deepcopy(wf))
        rep = spec.inspect()
    except Exception as e:  # a notation the loader chokes on is an observation like any other
        o["accepted"] = "loading raised %s" % type(e).__name__
        return o
    o["accepted"] = not rep
    o["report_categories"] = sorted(rep.keys())
    try:
        g = composer.WorkflowComposer.compose(spec)
        o["graph"] = canon(g.serialize())
    except Exception as e:
        o["graph"] = "compose raised %s" % type(e).__name__
    if rep:
        return o
    run = explore.make_run(dict(wf=wf, inputs={}, oseed=seed, p_fail=0.15), [], model=None)
    explore.run_free(run, explore.Policy(pseed=seed))
    o["offers"] = [[x["task"], x["item"], x.get("action"), canon(x.get("input")), x.get("delay")] for x in run.offers]
    o["contexts"] = canon(run.last["state"]["contexts"])
    o["status"] = run.status()
    o["output"] = canon(run.c.get_workflow_output())
    o["errors"] = canon(run.c.errors)
    o["script"] = run.script
    return o


def twins(job):
    out = dict(evaluations=0, nontrivial=set(), violations=[], samples=[], counters={}, sets={})
    C = out["counters"]
    only = job.get("only")
    for seed in ([only[0]] if only else range(job["lo"], job["hi"])):
        rng = random.Random("%s/%s/c20" % (job.get("gseed", 0), seed))
        lw = gen_long(rng)
        sw, conv = to_short(lw, rng)
        if not conv:
            C["no_shorthand_position"] = C.get("no_shorthand_position", 0) + 1
            continue
        a, b = observe(lw, seed), observe(sw, seed)
        out["evaluations"] += 1
        C["positions_converted"] = C.get("positions_converted", 0) + len(conv)
        for c in conv:
            C["converted." + c[1]] = C.get("converted." + c[1], 0) + 1
            for ty in c[2]:
                out["sets"].setdefault("value_types", set()).add(ty)
        if a["accepted"]:
            C["accepted_long_forms"] = C.get("accepted_long_forms", 0) + 1
        quoted = any(ty in ("str", "dict") for c in conv for ty in c[2])
        if len(conv) >= 2 and quoted:
            out["nontrivial"].add(workloads.digest([lw, sw]))
        for k in ("accepted", "graph", "offers", "contexts", "status", "output", "errors"):
            if a.get(k) != b.get(k):
                da, db = a.get(k), b.get(k)
                if isinstance(da, list) and isinstance(db, list):
                    i = next((i for i in range(min(len(da), len(db))) if da[i] != db[i]), min(len(da), len(db)))
                    da, db = da[i:i + 1], db[i:i + 1]
                out["violations"].append(dict(prop="C20", kind="shorthand_differs_" + k, subject=k, cause=None,
                                              detail="long form and shorthand differ in %s: %s vs %s (shorthand positions %s)"
                                              % (k, str(da)[:300], str(db)[:300], conv[:6]),
                                              wf=lw, shorthand=sw, workload=job.get("name"),
                                              job=dict({x: job[x] for x in job if x not in ("lo", "hi")}, only=[seed], lo=seed, hi=seed + 1)))
                break
        if len(out["samples"]) < 1 and len(conv) >= 3 and a["accepted"]:
            out["samples"].append(dict(long_form=lw, shorthand=sw, positions=conv, equal=True, offers=a.get("offers")))
    return out


def jobs(tier, seed):
    return batches("twins", scale(tier, 700, 20000), scale(tier, 50, 500), gseed=seed, name="twins")


def reach(m):
    c = m["counters"]
    if c.get("converted.action", 0) < 50 or c.get("converted.publish", 0) < 50 or c.get("accepted_long_forms", 0) < 100:
        return "converted action %s publish %s, accepted %s" % (c.get("converted.action"), c.get("converted.publish"), c.get("accepted_long_forms"))
    return None
