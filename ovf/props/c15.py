"""C15 - accepted definitions are executable; broken references are reported."""
import copy
import random

from ovf import workloads
from ovf.props.common import batches, scale, ASSUME_SIM
from ovf.sim import explore
from ovf.sim.provider import h64

from orquesta.composers import native as composer
from orquesta.specs import native as native_specs

LEVEL = "exploration"
TECHNIQUE = ("runtime monitoring of inspect()/compose()/conductor: (a) soundness - everything inspection accepts out of a wide, "
             "not clean-by-construction generator is composed and conducted under seeded histories with the containment "
             "monitor; (b) completeness - single-fault mutants of accepted definitions must be reported in the matching category")
RULE = ("(a) generated definitions with 1-3 random 'wild' edits (references to arbitrary variables, non-list items, "
        "non-integer delay/count/concurrency values, join on arbitrary tasks incl. 0, retargeted transitions, odd "
        "shapes): whatever inspect() accepts is composed and conducted under 2 seeded histories; any exception out of "
        "compose() or a conductor API call is a violation; (b) mutants of accepted definitions, one fault each: "
        "transition target renamed to an undefined task (reachable transitions only), task renamed to an engine "
        "command, every start task pulled into a cycle, grammar broken at every expression position in both "
        "languages, unassigned variable referenced in each documented form (ctx(x), ctx('x'), ctx(\"x\"), ctx().x) at "
        "every position incl. inside list/mapping values; each must yield a non-empty report in the matching "
        "category; non-trivial = accepted wild definition conducted, or mutant inspected; distinct = definition digest")
ASSUMPTIONS = ASSUME_SIM + ["'nothing upstream assigns' is decided on the raw definition: the mutant's variable name occurs nowhere else"]

FORMS = {"yaql": ["ctx(%s)", "ctx('%s')", 'ctx("%s")', "ctx().%s"], "jinja": ["ctx('%s')", 'ctx("%s")', "ctx().%s"]}
# the unassigned variable referenced inside another (assigned) reference, in mixed forms
NESTED = {"yaql": ["ctx().x.get(ctx(%s))", "ctx(x).get(ctx('%s'))", 'ctx().y + ctx("%s")', "ctx(x) + ctx().%s"],
          "jinja": ["ctx().x.get(ctx('%s'))", 'ctx("x") ~ ctx().%s', "ctx().y ~ ctx('%s')"]}
BROKEN = {"yaql": ["<% ctx(x) + %>", "<% 1 +/ 2 %>", "<% (1 %>", "<% ctx(x). %>"],
          "jinja": ["{{ 1 +/ 2 }}", "{{ ctx('x' }}", "{{ (1 }}", "{{ 1 | }}"]}


def wrap(lang, body):
    return ("<%% %s %%>" % body) if lang == "yaql" else ("{{ %s }}" % body)


# ------------------------------------------------------------------------------- positions
def positions(wf):
    """every expression-bearing position of a definition: (label, setter(value))"""
    pos = []
    if wf.get("input"):
        for i, it in enumerate(wf["input"]):
            if isinstance(it, dict):
                k = list(it)[0]
                pos.append(("input", lambda v, i=i, k=k: wf["input"].__setitem__(i, {k: v})))
    if wf.get("vars"):
        for i, it in enumerate(wf["vars"][:2]):
            k = list(it)[0]
            pos.append(("vars", lambda v, i=i, k=k: wf["vars"].__setitem__(i, {k: v})))
    if wf.get("output"):
        for i, it in enumerate(wf["output"][:2]):
            k = list(it)[0]
            pos.append(("output", lambda v, i=i, k=k: wf["output"].__setitem__(i, {k: v})))
    reach = reachable(wf)
    for nm, t in wf["tasks"].items():
        if nm not in reach:
            continue  # the property speaks about reachable tasks only
        pos.append(("action", lambda v, t=t: t.__setitem__("action", v)))
        pos.append(("task_input", lambda v, t=t: t.__setitem__("input", {"message": v})))
        pos.append(("task_input_nested", lambda v, t=t: t.__setitem__("input", {"message": {"deep": [1, v]}})))
        pos.append(("delay", lambda v, t=t: t.__setitem__("delay", v)))
        if "with" not in t:
            pos.append(("with_items", lambda v, t=t: (t.__setitem__("with", {"items": v}), t.__setitem__("action", "core.noop"))))
        else:
            pos.append(("with_items", lambda v, t=t: t["with"].__setitem__("items", v)))
            pos.append(("with_concurrency", lambda v, t=t: t["with"].__setitem__("concurrency", v)))
        pos.append(("retry_when", lambda v, t=t: t.__setitem__("retry", {"count": 1, "when": v})))
        pos.append(("retry_count", lambda v, t=t: t.__setitem__("retry", {"count": v})))
        pos.append(("retry_delay", lambda v, t=t: t.__setitem__("retry", {"count": 1, "delay": v})))
        for j, tr in enumerate(t.get("next") or []):
            pos.append(("when", lambda v, tr=tr: tr.__setitem__("when", v)))
            pos.append(("publish", lambda v, tr=tr: tr.__setitem__("publish", [{"pv": v}])))
            pos.append(("publish_inline", lambda v, tr=tr: tr.__setitem__("publish", "pv=%s" % v)))
    return pos


def reachable(wf):
    tasks = wf["tasks"]

    def targets(nm):
        out = []
        for tr in tasks.get(nm, {}).get("next") or []:
            do = tr.get("do") or "continue"
            if isinstance(do, str):
                do = [x.strip() for x in do.split(",")]
            out.extend(do)
        return out

    inb = {k: 0 for k in tasks}
    for k in tasks:
        for d in targets(k):
            if d in inb:
                inb[d] += 1
    seen, q = [], [k for k in tasks if inb[k] == 0]
    while q:
        x = q.pop(0)
        if x in seen or x not in tasks:
            continue
        seen.append(x)
        q.extend(targets(x))
    return seen


def mutants(wf, rng, limit):
    """yield (fault class, expected report category, mutated definition)"""
    out = []
    base = copy.deepcopy(wf)
    reach = reachable(base)
    # renamed target on a reachable transition
    for nm in reach:
        for j, tr in enumerate(base["tasks"][nm].get("next") or []):
            do = tr.get("do")
            if do and (isinstance(do, list) or "," not in do):
                m = copy.deepcopy(base)
                trm = m["tasks"][nm]["next"][j]
                # (also names that happen to be attributes of the container the tasks are kept in)
                ghost = rng.choice(["ghost_task", "ghost_task", "items", "update", "copy", "keys", "values", "pop", "get"])
                if isinstance(do, list):
                    trm["do"] = [ghost] + list(do[1:])
                else:
                    trm["do"] = ghost
                out.append(("undefined_target", "semantics", m))
    # reserved names
    for cmd in ("noop", "fail", "continue", "retry"):
        m = copy.deepcopy(base)
        first = list(m["tasks"])[0]
        m["tasks"] = {(cmd if k == first else k): v for k, v in m["tasks"].items()}
        out.append(("reserved_name", "semantics", m))
    # no start task: every start task gets an inbound transition from the last reachable task
    m = copy.deepcopy(base)
    starts = [k for k in reach if all(k not in _targets(m, o) for o in m["tasks"])]
    if reach:
        last = m["tasks"][reach[-1]]
        last.setdefault("next", []).append({"do": list(starts)})
        out.append(("no_start_task", "semantics", m))
    # broken grammar / unassigned variable at every position
    for lang in ("yaql", "jinja"):
        m0 = copy.deepcopy(base)
        for idx, (label, setter) in enumerate(positions(m0)):
            mm = copy.deepcopy(base)
            label2, setter2 = positions(mm)[idx]
            setter2(rng.choice(BROKEN[lang]))
            out.append(("broken_grammar:%s:%s" % (label, lang), "expressions", mm))
            for form in FORMS[lang] + NESTED[lang]:
                mm = copy.deepcopy(base)
                label2, setter2 = positions(mm)[idx]
                body = form % "ghost_var"
                if label in ("when", "retry_when"):
                    body += " = 1" if lang == "yaql" else " == 1"
                setter2(wrap(lang, body))
                out.append(("unassigned_variable:%s:%s:%s" % (label, lang, form), "context", mm))
                if label in ("when", "retry_when") and form in FORMS[lang]:
                    # the same comparison written without blanks, alone and behind a status function
                    for k, tmpl in enumerate(("%s=1", "succeeded() and %s=1") if lang == "yaql" else ("%s==1", "succeeded() and %s==1")):
                        mm = copy.deepcopy(base)
                        label2, setter2 = positions(mm)[idx]
                        setter2(wrap(lang, tmpl % (form % "ghost_var")))
                        out.append(("unassigned_variable:%s_compact%d:%s:%s" % (label, k, lang, form), "context", mm))
    # an entry that reads the very variable it assigns, which nothing upstream assigns
    for lang in ("yaql", "jinja"):
        for form in FORMS[lang]:
            body = (form % "ghost_var") + (" + 1" if lang == "yaql" else " ~ 'x'")
            expr = wrap(lang, body)
            mm = copy.deepcopy(base)
            mm["vars"] = (mm.get("vars") or []) + [{"ghost_var": expr}]
            out.append(("unassigned_variable:vars_self:%s:%s" % (lang, form), "context", mm))
            mm = copy.deepcopy(base)
            mm["output"] = (mm.get("output") or []) + [{"ghost_var": expr}]
            out.append(("unassigned_variable:output_self:%s:%s" % (lang, form), "context", mm))
            for nm in reach[:2]:
                for j, tr in enumerate(base["tasks"][nm].get("next") or []):
                    mm = copy.deepcopy(base)
                    mm["tasks"][nm]["next"][j]["publish"] = [{"ghost_var": expr}]
                    out.append(("unassigned_variable:publish_self:%s:%s" % (lang, form), "context", mm))
    if limit and len(out) > limit:
        out = rng.sample(out, limit)
    return out


def _targets(wf, nm):
    out = []
    for tr in wf["tasks"].get(nm, {}).get("next") or []:
        do = tr.get("do") or "continue"
        if isinstance(do, str):
            do = [x.strip() for x in do.split(",")]
        out.extend(do)
    return out


def completeness(job):
    out = dict(evaluations=0, nontrivial=set(), violations=[], samples=[], counters={}, sets={})
    C = out["counters"]
    only = job.get("only")
    for seed in ([only[0]] if only else range(job["lo"], job["hi"])):
        m, inputs = workloads.gen_case(job, seed)
        wf = m.render()
        if not workloads.inspect_ok(wf):
            C["definitions_rejected_by_inspection"] = C.get("definitions_rejected_by_inspection", 0) + 1
            continue
        rng = random.Random(h64(job.get("gseed", 0), seed, "mut"))
        for k, (fault, category, mw) in enumerate(mutants(wf, rng, job.get("limit"))):
            if only and len(only) > 1 and k != only[1]:
                continue
            out["evaluations"] += 1
            cls = fault.split(":")[0]
            C["mutants." + cls] = C.get("mutants." + cls, 0) + 1
            out["sets"].setdefault("fault_positions", set()).add(":".join(fault.split(":")[:2]))
            out["nontrivial"].add(workloads.digest(mw))
            try:
                spec = native_specs.WorkflowSpec(copy.deepcopy(mw))
            except Exception as e:
                # a definition that cannot even be loaded is rejected, loudly
                C["mutants_rejected_at_load"] = C.get("mutants_rejected_at_load", 0) + 1
                continue
            try:
                rep = spec.inspect()
            except Exception as e:
                # the fault is to be REPORTED: an internal error out of inspect() is not a report
                out["violations"].append(dict(prop="C15", kind="inspection_raised", subject=":".join(fault.split(":")[:2]), cause=None,
                                              detail="inspect() of a single-fault mutant (%s) raised %s: %s" % (fault, type(e).__name__, str(e)[:150]),
                                              wf=mw, workload=job.get("name"),
                                              job=dict({x: job[x] for x in job if x not in ("lo", "hi")}, only=[seed, k], lo=seed, hi=seed + 1)))
                continue
            if not rep:
                out["violations"].append(dict(prop="C15", kind="fault_not_reported", subject=":".join(fault.split(":")[:2]), cause=None,
                                              detail="single-fault mutant (%s) was accepted with an empty report" % fault,
                                              wf=mw, workload=job.get("name"),
                                              job=dict({x: job[x] for x in job if x not in ("lo", "hi")}, only=[seed, k], lo=seed, hi=seed + 1)))
            elif category not in rep:
                C["reported_in_other_category"] = C.get("reported_in_other_category", 0) + 1
                if category in ("context", "expressions") and not (set(rep) & {"context", "expressions", "syntax"}):
                    out["violations"].append(dict(prop="C15", kind="fault_reported_elsewhere", subject=":".join(fault.split(":")[:2]), cause=None,
                                                  detail="mutant (%s) reported only under %s" % (fault, sorted(rep)), wf=mw,
                                                  workload=job.get("name"),
                                                  job=dict({x: job[x] for x in job if x not in ("lo", "hi")}, only=[seed, k], lo=seed, hi=seed + 1)))
            else:
                C["reported"] = C.get("reported", 0) + 1
        if len(out["samples"]) < 1:
            out["samples"].append(dict(definition=wf, mutant_classes=sorted(set(f.split(":")[0] for f, _, _ in mutants(wf, rng, 40)))))
    return out


# ------------------------------------------------------------------------------- soundness
WILD = ["ref_unknown", "items_nonlist", "delay_str", "count_str", "conc_str", "join_any", "join_zero", "retarget", "self_loop",
        "action_expr", "input_str", "publish_weird", "output_ref", "retry_when_ref", "dup_transition", "with_named", "cont_cmd"]


def wild_edit(wf, rng):
    names = list(wf["tasks"])
    t = wf["tasks"][rng.choice(names)]
    e = rng.choice(WILD)
    v = rng.choice(["x", "y", "z", "xs", "n", "k", "nosuch", "u0"])
    if e == "ref_unknown":
        t["input"] = {"message": "<%% ctx(%s) %%>" % v}
    elif e == "items_nonlist":
        t["with"] = {"items": "<%% ctx(%s) %%>" % v}
        t["action"] = "core.echo"
    elif e == "delay_str":
        t["delay"] = "<%% ctx(%s) %%>" % v
    elif e == "count_str":
        t["retry"] = {"count": "<%% ctx(%s) %%>" % v}
    elif e == "conc_str":
        t["with"] = {"items": "<% ctx(xs) %>", "concurrency": "<%% ctx(%s) %%>" % v}
    elif e == "join_any":
        t["join"] = rng.choice(["all", 1, 2, 5])
    elif e == "join_zero":
        t["join"] = 0
    elif e == "retarget" and t.get("next"):
        tr = rng.choice(t["next"])
        if not any("i" in p for p in (tr.get("publish") or []) if isinstance(p, dict)):
            tr["do"] = [rng.choice(names)]
    elif e == "self_loop":
        t.setdefault("next", []).append({"when": "<% failed() %>", "do": [rng.choice(names)]})
    elif e == "action_expr":
        t["action"] = "<%% ctx(%s) %%>" % v
    elif e == "input_str":
        t["input"] = "<%% ctx(%s) %%>" % v
    elif e == "publish_weird" and t.get("next"):
        tr = rng.choice(t["next"])
        if "publish" not in tr:  # never replace a loop counter: an unbounded loop is the definition's own fault
            tr["publish"] = [{"x": {"nested": ["<% result() %>", {"k": "<% ctx(x) %>"}]}}, {"y": None}]
    elif e == "output_ref":
        wf["output"] = (wf.get("output") or []) + [{"extra": "<%% ctx(%s) %%>" % v}]
    elif e == "retry_when_ref":
        t["retry"] = {"count": 2, "when": "<%% ctx(%s) = 1 %%>" % v}
    elif e == "dup_transition" and t.get("next"):
        t["next"].append(copy.deepcopy(rng.choice(t["next"])))
    elif e == "with_named":
        t["with"] = {"items": "a, b in <% zip(ctx(xs), ctx(xs)) %>"}
        t["action"] = "core.echo"
        t["input"] = {"message": "<% item(a) %>"}
    elif e == "cont_cmd" and t.get("next"):
        rng.choice(t["next"])["do"] = rng.choice([["continue"], ["noop"], ["fail"], "noop, fail"])
    return e


RELABEL = {"exception_escaped": ["C15", "internal_error_on_accepted_definition"]}


def soundness(job):
    from ovf.props.c11 import relabel
    out = dict(evaluations=0, nontrivial=set(), violations=[], samples=[], counters={}, sets={})
    C = out["counters"]
    only = job.get("only")
    for seed in ([only[0]] if only else range(job["lo"], job["hi"])):
        m, inputs = workloads.gen_case(job, seed)
        wf = m.render()
        rng = random.Random(h64(job.get("gseed", 0), seed, "wild"))
        edits = [wild_edit(wf, rng) for _ in range(rng.randint(1, 3))]
        try:
            spec = native_specs.WorkflowSpec(copy.deepcopy(wf))
            rep = spec.inspect()
        except Exception:
            C["wild_rejected_at_load"] = C.get("wild_rejected_at_load", 0) + 1
            continue
        if rep:
            C["wild_rejected_by_inspection"] = C.get("wild_rejected_by_inspection", 0) + 1
            continue
        C["wild_accepted"] = C.get("wild_accepted", 0) + 1
        for e in edits:
            out["sets"].setdefault("accepted_edits", set()).add(e)
        try:
            composer.WorkflowComposer.compose(spec)
        except Exception as e:
            out["violations"].append(dict(prop="C15", kind="compose_raised", subject="compose", cause=None,
                                          detail="accepted definition cannot be composed: %s: %s" % (type(e).__name__, e), wf=wf,
                                          workload=job.get("name"),
                                          job=dict({x: job[x] for x in job if x not in ("lo", "hi")}, only=[seed], lo=seed, hi=seed + 1)))
            continue
        for sched in range(2):
            ms = [x for x in workloads.monitors() if x.name in ("arrival_items", "status", "appendonly")]
            try:
                run = explore.make_run(dict(wf=wf, inputs=inputs, oseed=seed, p_fail=0.2), ms, model=None)
            except Exception as e:
                out["violations"].append(dict(prop="C15", kind="conductor_init_raised", subject="init", cause=None,
                                              detail="accepted definition: %s: %s" % (type(e).__name__, e), wf=wf,
                                              workload=job.get("name"),
                                              job=dict({x: job[x] for x in job if x not in ("lo", "hi")}, only=[seed], lo=seed, hi=seed + 1)))
                break
            explore.run_free(run, explore.Policy(pseed=h64(seed, sched), lazy_pct=40 * sched), max_steps=150, max_offers=250,
                             max_seconds=20)
            if run.notes.get("time_capped"):
                C["conducts_cut_by_the_time_cap"] = C.get("conducts_cut_by_the_time_cap", 0) + 1
            run.finish()
            out["evaluations"] += 1
            workloads.collect(out, dict(job, relabel=RELABEL), run, None, (seed, sched), lambda r, mm: True, extra=dict(edits=edits))
    return out


def nontrivial(run, m):
    return True


def jobs(tier, seed):
    P = dict(p_items=0.2, p_retry=0.2, nmax=5)
    js = batches("completeness", scale(tier, 48, 800), scale(tier, 3, 25), gen="mix", p_loop=0.2, P=P, gseed=seed,
                 limit=scale(tier, 120, 0), name="mutants")
    # loops whose head is a `join: 1` task (the join is the target of the back edge): faults in and behind such a join
    js += batches("completeness", scale(tier, 16, 300), scale(tier, 2, 25), gen="loop", P=dict(P, p_loop_head_join=1.0, p_loop_join=0.0), gseed=seed + 2,
                  limit=scale(tier, 120, 0), name="mutants-behind-a-join-in-a-cycle")
    js += batches("soundness", scale(tier, 500, 12000), scale(tier, 30, 300), gen="mix", p_loop=0.25, P=P, gseed=seed + 1, name="wild")
    return js


def reach(m):
    c = m["counters"]
    if c.get("mutants.unassigned_variable", 0) < 200 or c.get("wild_accepted", 0) < 50:
        return "unassigned-variable mutants %s, wild accepted %s" % (c.get("mutants.unassigned_variable"), c.get("wild_accepted"))
    return None
