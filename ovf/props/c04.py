"""C04 - terminal statuses are final; forbidden status requests have no effect."""
from ovf.props.c03 import parked  # noqa: F401
from ovf.props.common import batches, family_slices, scale, ASSUME_SIM
from ovf.workloads import conduct, corpus, mon  # noqa: F401
from ovf.props.reqsweep import request_sweep  # noqa: F401

LEVEL = "exploration"
TECHNIQUE = "runtime monitoring: suffix assertions after the first terminal status + every status request tried on a clone of every visited state"
RULE = ("(1) generated definitions x hashed outcomes x lazy schedules in which every in-flight action is still reported "
        "after the workflow became terminal (late reports), with crashes and early renders; offers after a terminal "
        "status, exceptions on late reports and status changes are asserted on every suffix; (2) request sweep: at "
        "every visited state of small histories each of the 16 statuses is requested on an alias-preserving clone and, "
        "if the request raises, the persisted state must equal the state before; tasks that wait at the provider (pending / paused) when the cancel request comes, their answers arriving after the workflow was canceled; engine commands beside each other (exhaustive family: one or two transitions x condition x {implicit continue, continue, noop, fail, noop+fail, task+fail, task} x publish x outcome; 3612 definitions); non-trivial = history with at least "
        "one API call after the first terminal status, or a (state, request) pair that was rejected; distinct = "
        "(definition, history) resp. (state digest, request) digest")
ASSUMPTIONS = ASSUME_SIM


def nontrivial(run, m):
    sm = mon(run, "status")
    return sm.stats["terminal_suffix_calls"] > 0


def jobs(tier, seed):
    P = dict(p_intjoin=0.3, p_fail_cmd=0.15)
    js = batches("conduct", scale(tier, 240, 4000), scale(tier, 20, 100), gen="mix", p_loop=0.2, gseed=seed, P=P,
                 scheds=2, lazy=[30, 70], p_fail=0.25, ctl=dict(crash=0.04, early_render=0.5, req=0.04, max_req=2,
                                                                reqs=["canceling", "canceled", "pausing"]), name="late-reports")
    js += batches("request_sweep", scale(tier, 60, 1200), scale(tier, 5, 30), gen="mix", p_loop=0.2, gseed=seed + 11,
                  P=dict(P, nmax=5, p_items=0.3), name="request-sweep")
    # tasks that wait at the provider (pending / paused) when the cancel request comes: the workflow is canceled at once and
    # their answers arrive late
    js += batches("parked", scale(tier, 120, 2500), scale(tier, 10, 100), gen="dag", gseed=seed + 13, p_fail=0.35, cancel_at_rest=60, p_park=45,
                  P=dict(p_intjoin=0.2, p_items=0.2, p_retry=0.1, p_fail_cmd=0.3, nmax=5), scheds=2, name="cancel-while-a-task-waits")
    # the repository's own fixture definitions under generated outcomes, schedules and requests
    js += [dict(fn="corpus", parts=4, part=i, runs=scale(tier, 4, 40), gseed=seed, ctl=dict(crash=0.04, early_render=0.5), name="corpus") for i in range(4)]
    # engine commands beside each other (exhaustive family: one or two transitions x condition x {implicit continue, continue, noop, fail, noop+fail, task+fail, task} x publish x outcome; 3612 definitions)
    js += family_slices("conduct", 3612, 128, tier, seed, parts=2, gen="cmds", scheds=1, lazy=[0], p_fail=0.0, name="engine-command-combinations")
    return js


def reach(m):
    c = m["counters"]
    if c.get("status.late_reports", 0) < 20 or c.get("sweep.rejected", 0) < 50:
        return "late reports %s, rejected requests %s" % (c.get("status.late_reports"), c.get("sweep.rejected"))
    return None
