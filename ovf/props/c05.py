"""C05 - persisting and restoring the conductor at any point is unobservable (crash twin)."""
import importlib
import random

from ovf import workloads
from ovf.props.common import batches, scale, ASSUME_SIM
from ovf.sim import explore
from ovf.sim.provider import Monitor, canon, h64

LEVEL = "exploration"
TECHNIQUE = "runtime monitoring: relational crash-twin - a never-persisted conductor and one persisted+restored at chosen points run the same history in lock-step; polls, full persisted form, errors, output and status compared after every step"
RULE = ("base histories = generated definitions (joins, splits, with-items, retries, loops) x hashed outcomes x seeded "
        "lazy/eager schedules with pause/cancel requests, early output renders and a rerun of failed workflows; for each "
        "base history the restored twin is crashed at: every position, each single position (all of them for short "
        "histories, sampled beyond), and random subsets; after EVERY step the twins' poll answers and full serialize() "
        "are compared, and every restore is checked to reproduce the persisted form exactly; histories in which a failed workflow is rerun while other actions are still in flight; non-trivial = twin run "
        "with at least one crash point at which the staged list was non-empty; distinct = (definition, history, "
        "crash set) digest")
ASSUMPTIONS = ASSUME_SIM


class CrashMon(Monitor):
    name = "crashmon"

    def on_init(self, run):
        self.stats = dict(restores=0, restores_with_staged=0, restores_with_items=0)

    def on_crash(self, run, data, c2):
        self.stats["restores"] += 1
        if data["state"]["staged"]:
            self.stats["restores_with_staged"] += 1
        if any("items" in s for s in data["state"]["staged"]):
            self.stats["restores_with_items"] += 1
        d2 = c2.serialize()
        if canon(d2) != canon(data):
            diff = [k for k in data if canon(data[k]) != canon(d2.get(k))]
            run.viol("C05", "reserialize_differs", "persisting the restored conductor does not reproduce the persisted "
                     "form: %s differ" % diff, subject=",".join(diff))


def nontrivial(run, m):
    cm = workloads.mon(run, "crashmon")
    return cm is not None and cm.stats["restores_with_staged"] > 0


def make_base(job, case, m, seed):
    run = explore.make_run(case, [], model=m)
    ctl = dict(req=0.06, max_req=3, early_render=job.get("early_render", 0.6))
    inj = workloads.Injector(h64(job.get("gseed", 0), seed, "inj"), ctl)
    pol = explore.Policy(pseed=h64(job.get("gseed", 0), seed, "p"), lazy_pct=[0, 50][seed % 2], render=True)
    state = dict(done=False)

    def hook(r, phase):
        inj(r, phase)
        if job.get("rerun_inflight") and phase == "after_done" and not state["done"] and r.status() == "failed" and r.inflight:
            # the failed workflow is rerun at once, while other actions are still in flight: their reports arrive after
            # the rerun, at entries the rerun has staged again
            state["done"] = True
            r.rerun(None)

    explore.run_free(run, pol, hook=hook)
    if run.status() == "failed" and not run.inflight and seed % 3 == 0:
        run.rerun(None)
        explore.run_free(run, pol, start=False)
    return run.script


def twin(job, case, m, script, crashes, out, ident, nontriv_fn):
    """L: script as is.  R: script with a crash after each position in `crashes`."""
    L = explore.make_run(case, [], model=m)
    L.record_full = True
    explore.play_script(L, script)
    cs = set(crashes)
    # -1: persisted and restored before the provider's first request (before anything touched the new conductor)
    R = explore.make_run(case, [CrashMon()], model=m, label="restored-twin", precrash=(-1 in cs))
    R.record_full = True
    for i, op in enumerate(script):
        R.play(op)
        if i in cs:
            R.crash()
    R.finish()
    n = min(len(L.oplog), len(R.oplog))
    for k in range(n):
        a, b = L.oplog[k], R.oplog[k]
        if a != b:
            what = [x for x in ("op", "status", "extra", "full") if a.get(x) != b.get(x)]
            R.viol("C05", "twin_diverged", "after step %d (%s) the restored conductor differs from the never-persisted one "
                   "in %s (crash points %s)" % (k, a["op"], what, sorted(cs)[:12]), subject=",".join(what))
            break
    if len(L.oplog) != len(R.oplog):
        R.viol("C05", "twin_diverged", "histories have different lengths %d vs %d" % (len(L.oplog), len(R.oplog)), subject="length")
    out["evaluations"] += 1
    j = dict(job, fn="crash_case", case=dict(workloads.export_case(L, m), crashes=sorted(cs)))
    workloads.collect(out, job, R, m, ident, nontriv_fn)
    for v in out["violations"]:
        if v.get("job", {}).get("fn") == "replay_case" and v["prop"] == "C05" and "crashes" not in v["job"]["case"]:
            v["job"] = dict(fn="crash_case", mod=job["mod"], prop="C05", name=job.get("name"),
                            case=dict(workloads.export_case(L, m), crashes=sorted(cs)))
    return L, R


def crash_case(job):
    from ovf.gen import defs
    out = dict(evaluations=0, nontrivial=set(), violations=[], samples=[], counters={}, sets={})
    case = job["case"]
    m = defs.Model.from_json(case["model"]) if case.get("model") else None
    twin(job, case, m, case["script"], case["crashes"], out, (0, 0), nontrivial)
    return out


def gen_late(rng):
    """parallel branches; one fails at once (workflow failed while the others run); the output variable exists only
    once a surviving branch has published it"""
    from ovf.gen import defs
    m = defs.Model()
    m.vars = [("x", "init.x")]
    k = rng.randint(2, 4)
    for i in range(k):
        s = defs.Task("s%d" % i)
        m.tasks[s.name] = s
    for i in range(k):
        s = m.tasks["s%d" % i]
        lang = rng.choice(["yaql", "jinja"])
        if i == 0:
            continue  # s0 fails with no handler
        pubs = [("w", ("lit", "%s.w" % s.name))] if rng.random() < 0.75 else []
        if rng.random() < 0.5:
            nxt = defs.Task("n%d" % i)
            m.tasks[nxt.name] = nxt
            s.trans.append(defs.Tr(0, cond=("succeeded",), lang=lang, pubs=pubs, do=[nxt.name]))
            if rng.random() < 0.6:
                nxt.trans.append(defs.Tr(0, cond=rng.choice([None, ("succeeded",)]), lang=lang,
                                         pubs=[("w", ("cat", "x", "|%s" % nxt.name))], do=rng.choice([["noop"], [], ["continue"]])))
        else:
            s.trans.append(defs.Tr(0, cond=rng.choice([None, ("succeeded",)]), lang=lang, pubs=pubs or [("x", ("cat", "x", "|p"))],
                                   do=rng.choice([["noop"], [], ["continue"]])))
    m.output = [("w", ("ref", "w"), rng.choice(["yaql", "jinja"]))]
    if rng.random() < 0.3:
        m.output.append(("x", ("ref", "x"), "yaql"))
    defs._tag(m)
    m.tags.add("latevar")
    return m, {}


def crash_twin(job):
    out = dict(evaluations=0, nontrivial=set(), violations=[], samples=[], counters={}, sets={})
    C = out["counters"]
    for seed in range(job["lo"], job["hi"]):
        if job.get("gen") == "badinit":
            from ovf.props import c11
            combos = [(p, k, l) for p in ("input", "vars", "output") for k in c11.KINDS[:4] for l in ("yaql", "jinja")]
            p_, k_, l_ = combos[seed % len(combos)]
            t = c11.template(p_, k_, l_, "start")
            if t is None:
                continue
            wf0, inputs, m = t[0], {}, None
        elif job.get("gen") == "late":
            m, inputs = gen_late(random.Random("%s/%s/late" % (job.get("gseed", 0), seed)))
        else:
            m, inputs = workloads.gen_case(job, seed)
        wf = m.render() if m is not None else wf0
        if not workloads.inspect_ok(wf):
            C["definitions_rejected_by_inspection"] = C.get("definitions_rejected_by_inspection", 0) + 1
            continue
        case = dict(wf=wf, inputs=inputs, oseed=h64(job.get("gseed", 0), seed, "o") % 100000, p_fail=job.get("p_fail", 0.2))
        if job.get("gen") == "late":
            case["overrides"] = {"s0/None/0/None": ["failed", None]}
        script = make_base(job, case, m, seed)
        C["base_histories"] = C.get("base_histories", 0) + 1
        n = len(script)
        rng = random.Random(h64(job.get("gseed", 0), seed, "c"))
        sets = [list(range(-1, n)), [-1]]
        singles = list(range(n)) if n <= job.get("all_singles_upto", 14) else rng.sample(range(n), job.get("singles", 8))
        sets += [[i] for i in singles]
        for _ in range(job.get("subsets", 3)):
            sets.append(sorted(rng.sample(range(n), rng.randint(2, max(2, n // 2)))) if n >= 2 else [0])
        for k, cs in enumerate(sets):
            twin(job, case, m, script, cs, out, (seed, k), nontrivial)
            C["crash_points"] = C.get("crash_points", 0) + len(cs)
    return out


def jobs(tier, seed):
    P = dict(p_intjoin=0.3, p_items=0.25, p_retry=0.2, p_latevar=0.4)
    js = batches("crash_twin", scale(tier, 100, 2500), scale(tier, 6, 40), gen="mix", p_loop=0.3, P=P, gseed=seed,
                 all_singles_upto=scale(tier, 12, 30), singles=scale(tier, 6, 16), subsets=scale(tier, 2, 6), name="crash-twin")
    # output that exists only once a late branch has published it, rendered as soon as the workflow is completed
    # (while other actions are still in flight) and again at the end
    js += batches("crash_twin", scale(tier, 80, 1500), scale(tier, 8, 40), gen="late", gseed=seed + 1, p_fail=0.05, early_render=1.0,
                  all_singles_upto=scale(tier, 14, 30), singles=scale(tier, 6, 16), subsets=scale(tier, 1, 4), name="late-output")
    # failed workflows rerun while other actions are still in flight (late reports arrive at re-staged entries)
    js += batches("crash_twin", scale(tier, 60, 1500), scale(tier, 6, 40), gen="dag", gseed=seed + 3, p_fail=0.35, rerun_inflight=True,
                  P=dict(p_intjoin=0.5, p_intjoin_less=0.5, p_join=0.8, p_items=0.15, p_retry=0.1, nmax=5),
                  all_singles_upto=scale(tier, 12, 30), singles=scale(tier, 6, 16), subsets=scale(tier, 1, 4), name="rerun-with-late-reports")
    # definitions whose input / vars / output fail to render: the conductor is failed by its own initialisation
    js += batches("crash_twin", 24, 24, gen="badinit", gseed=seed + 2, all_singles_upto=30, subsets=1, name="failing-init")
    return js


def reach(m):
    c = m["counters"]
    if c.get("crashmon.restores", 0) < 500 or c.get("crashmon.restores_with_items", 0) < 5:
        return "restores %s, with item tables %s" % (c.get("crashmon.restores"), c.get("crashmon.restores_with_items"))
    return None
