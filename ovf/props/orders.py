"""exhaustive enumeration of completion orders of one scenario (shared by C01, C07, C08, C06)"""
import importlib

from ovf import workloads
from ovf.sim import explore
from ovf.sim.provider import h64


def orders(job):
    pmod = importlib.import_module(job["mod"])
    nontriv_fn = getattr(pmod, "nontrivial", None)
    relate = getattr(pmod, "relate_orders", None)
    out = dict(evaluations=0, nontrivial=set(), violations=[], samples=[], counters={}, sets={})
    C = out["counters"]
    only = job.get("only")
    seeds = [only[0]] if only else range(job["lo"], job["hi"])
    for seed in seeds:
        m, inputs = workloads.gen_case(job, seed)
        wf = m.render()
        if not workloads.inspect_ok(wf):
            C["definitions_rejected_by_inspection"] = C.get("definitions_rejected_by_inspection", 0) + 1
            continue
        case = dict(wf=wf, inputs=inputs, oseed=h64(job.get("gseed", 0), seed, "o") % 100000,
                    p_fail=job.get("p_fail", 0.15))

        def factory():
            return explore.make_run(case, workloads.monitors(job.get("flags")), model=m)

        # size probe: one eager run tells how many completions the scenario has
        probe = factory()
        explore.run_free(probe, explore.Policy(pseed=1))
        ncomp = len([op for op in probe.script if op[0] == "done"])
        if ncomp > job.get("max_completions", 6) and not job.get("sample_large"):
            C["scenarios_too_large_skipped"] = C.get("scenarios_too_large_skipped", 0) + 1
            continue
        res, exhaustive = explore.enumerate_orders(factory, max_orders=job.get("max_orders", 120))
        C["scenarios"] = C.get("scenarios", 0) + 1
        C["scenarios_exhaustive"] = C.get("scenarios_exhaustive", 0) + (1 if exhaustive else 0)
        C["orders"] = C.get("orders", 0) + len(res)
        C["max_orders_of_one_scenario"] = max(C.get("max_orders_of_one_scenario", 0), len(res))
        for k, (choices, run) in enumerate(res):
            if only and len(only) > 1 and only[1] is not None and k != only[1]:
                continue
            run.finish()
            out["evaluations"] += 1
            workloads.collect(out, job, run, m, (seed, k), nontriv_fn)
        if relate is not None:
            relate(out, job, m, seed, res, exhaustive)
    return out
