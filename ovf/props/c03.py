"""C03 - no stuck workflow: quiescence implies a resting status."""
from ovf.props.common import batches, family_slices, scale, ASSUME_SIM
from ovf.workloads import conduct, corpus, mon  # noqa: F401
from ovf.props.sweeps import ctl_sweep  # noqa: F401

LEVEL = "exploration"
TECHNIQUE = "runtime monitoring: progress assertion at every quiescent point (nothing in flight, empty poll) of every history"
RULE = ("generated definitions (incl. with-items, retry, joins, loops) x hashed outcomes x seeded schedules, free and "
        "with pause/resume/cancel requests and crashes inserted at seeded positions and at every position of base "
        "histories; the four historical stuck shapes (failed with-items item, pending task, with-items in a cycle, "
        "resume of a finished paused workflow) are generated classes; additionally the decision-shape family (exhaustive in the thorough tier, a rotating slice in the quick tier): every acyclic edge set over 4 tasks with a join x condition succeeded/failed per edge x outcome per task (4128 definitions); non-trivial = history that reached at least one "
        "quiescent point after at least one completion report; distinct = (definition, history) digest")
ASSUMPTIONS = ASSUME_SIM + ["liveness is restated as safety at quiescent points, which is exact because the conductor never acts spontaneously"]


def nontrivial(run, m):
    sm = mon(run, "status")
    return sm.stats["quiescent_points"] > 0 and any(op[0] == "done" for op in run.script)


def jobs(tier, seed):
    P = dict(p_intjoin=0.3, p_items=0.25, p_retry=0.2)
    js = batches("conduct", scale(tier, 160, 4000), scale(tier, 10, 100), gen="mix", p_loop=0.4, gseed=seed, P=P,
                 scheds=2, ctl=dict(req=0.07, crash=0.03, max_req=4, reqs=["pausing", "paused", "resuming", "running", "canceling"]),
                 name="random-ctl")
    js += batches("conduct", scale(tier, 120, 2000), scale(tier, 20, 100), gen="mix", p_loop=0.4, gseed=seed + 3, P=P,
                  scheds=2, name="free")
    js += batches("conduct", scale(tier, 100, 2500), scale(tier, 10, 100), gen="mix", p_loop=0.3, gseed=seed + 5,
                  P=dict(P, p_fail_cmd=0.03), scheds=2, p_fail=0.3, exotic=0.5, ctl=dict(rerun=1.0), name="default-rerun")
    js += batches("ctl_sweep", scale(tier, 20, 600), scale(tier, 2, 20), gen="mix", p_loop=0.3, gseed=seed + 7,
                  P=dict(P, nmax=6), modes=["pause"], name="pause-sweep")
    # actions canceled on the provider side (no workflow request): the workflow goes canceling through the task event
    js += batches("conduct", scale(tier, 160, 3000), scale(tier, 10, 100), gen="dag", gseed=seed + 9,
                  P=dict(P, p_items=0.6, p_retry=0.1, p_expr_conc=0.2, xs_max=4, nmax=5), scheds=2, p_fail=0.35, exotic=0.7,
                  exotic_kinds=["canceled"], name="provider-side-cancel")
    # pause, then cancel while a with-items task rests between items and other actions still run
    js += batches("ctl_sweep", scale(tier, 40, 1000), scale(tier, 4, 25), gen="dag", gseed=seed + 8, p_fail=0.1,
                  P=dict(p_items=0.55, nmax=4, p_join=0.3, p_retry=0.1, p_expr_conc=0.3, xs_max=3), modes=["pause_then_cancel"],
                  name="pause-then-cancel")
    # the repository's own fixture definitions under generated outcomes, schedules and requests
    js += [dict(fn="corpus", parts=4, part=i, runs=scale(tier, 4, 40), gseed=seed, ctl=dict(req=0.08, max_req=3, reqs=["pausing", "paused", "resuming", "running", "canceling"]), name="corpus") for i in range(4)]
    # decision-shape family (exhaustive in the thorough tier, a rotating slice in the quick tier): every acyclic edge set over 4 tasks with a join x condition succeeded/failed per edge x outcome per task (4128 definitions)
    js += family_slices("ctl_sweep", 4128, 24, tier, seed, parts=12, gen="cshape", modes=["pause", "cancel"], p_fail=0.0, name="decision-shapes-sweep")
    return js


def reach(m):
    c = m["counters"]
    if c.get("status.quiescent_points", 0) < 50:
        return "only %s quiescent points" % c.get("status.quiescent_points")
    return None
