"""C03 - no stuck workflow: quiescence implies a resting status."""
from ovf.props.common import batches, family_slices, scale, ASSUME_SIM
from ovf.workloads import conduct, corpus, mon  # noqa: F401
from ovf.props.sweeps import ctl_sweep  # noqa: F401

LEVEL = "exploration"
TECHNIQUE = "runtime monitoring: progress assertion at every quiescent point (nothing in flight, empty poll) of every history"
RULE = ("generated definitions (incl. with-items, retry, joins, loops) x hashed outcomes x seeded schedules, free and "
        "with pause/resume/cancel requests and crashes inserted at seeded positions and at every position of base "
        "histories; the four historical stuck shapes (failed with-items item, pending task, with-items in a cycle, "
        "resume of a finished paused workflow) are generated classes; remediation loops around a with-items task (its failure leads back to it directly or through a plain task, 24 definitions x outcomes x schedules); additionally the decision-shape family (exhaustive in the thorough tier, a rotating slice in the quick tier): every acyclic edge set over 4 tasks with a join x condition succeeded/failed per edge x outcome per task (4128 definitions); tasks that wait at the provider (an action reports pending or paused and is not in flight: the workflow must rest paused, go on when the action is answered / runs again and the workflow is resumed); actions canceled on the provider side; a pause followed by a cancel; non-trivial = history that reached at least one "
        "quiescent point after at least one completion report; distinct = (definition, history) digest")
ASSUMPTIONS = ASSUME_SIM + ["liveness is restated as safety at quiescent points, which is exact because the conductor never acts spontaneously"]


def nontrivial(run, m):
    sm = mon(run, "status")
    return sm.stats["quiescent_points"] > 0 and any(op[0] == "done" for op in run.script)


def parked(job):
    """tasks that wait at the provider: an action reports `pending` (an inquiry) or `paused` (paused on the provider
    side) and is then not in flight; the workflow must come to rest `paused` (never sit in pausing / running with
    nothing in flight), go on when the action runs again or is answered and the workflow is resumed, and finish"""
    from ovf import workloads
    from ovf.sim import explore
    from ovf.sim.provider import h64
    out = dict(evaluations=0, nontrivial=set(), violations=[], samples=[], counters={}, sets={})
    C = out["counters"]
    only = job.get("only")
    for seed in ([only[0]] if only else range(job["lo"], job["hi"])):
        m, inputs = workloads.gen_case(job, seed)
        wf = m.render()
        if not workloads.inspect_ok(wf):
            C["definitions_rejected_by_inspection"] = C.get("definitions_rejected_by_inspection", 0) + 1
            continue
        for sched in range(job.get("scheds", 2)):
            if only and len(only) > 1 and sched != only[1]:
                continue
            case = dict(wf=wf, inputs=inputs, oseed=h64(job.get("gseed", 0), seed, "o") % 100000, p_fail=job.get("p_fail", 0.15))
            run = explore.make_run(case, workloads.monitors(job.get("flags")), model=m, label="parked")
            pol = explore.Policy(pseed=h64(job.get("gseed", 0), seed, sched, "p"))
            run.request("running")
            nparked = 0
            for _ in range(300):
                run.poll()
                if run.exc is not None:
                    break
                if not run.inflight:
                    if run.parked:
                        C["rest_points_with_waiting_actions"] = C.get("rest_points_with_waiting_actions", 0) + 1
                        out["sets"].setdefault("status_at_rest_with_waiting_actions", set()).add(run.status())
                        if run.status() == "paused" and h64(seed, sched, run.step, "cx") % 100 < job.get("cancel_at_rest", 0):
                            # the workflow is canceled while the action waits: it is canceled at once, the answer comes late
                            run.request(["canceling", "canceled"][h64(seed, sched, run.step) % 2])
                            C["cancels_while_waiting"] = C.get("cancels_while_waiting", 0) + 1
                        run.unpark(h64(seed, sched, run.step) % len(run.parked))
                        continue
                    if run.status() == "paused" and not run.ctl["pause_req"]:
                        # every waiting action was answered: the provider resumes the workflow
                        ev = run.request("resuming")
                        C["resumes_after_answers"] = C.get("resumes_after_answers", 0) + 1
                        if ev["exc"] is None:
                            continue
                    break
                i = pol.pick(run)
                a = run.inflight[i]
                if a["item"] is None and not a.get("was_parked") and nparked < 3 and h64(seed, sched, a["uid"], "park") % 100 < job.get("p_park", 30):
                    kind = ["pending", "paused"][h64(seed, sched, a["uid"], "kind") % 2]
                    run.park(i, kind)
                    nparked += 1
                    C["parked." + kind] = C.get("parked." + kind, 0) + 1
                else:
                    run.complete(i)
            if run.status() in ("succeeded", "failed") and not run.inflight and run.exc is None:
                run.render()
            run.finish()
            out["evaluations"] += 1
            workloads.collect(out, job, run, m, (seed, sched), lambda r, mm: nparked > 0)
    return out


def jobs(tier, seed):
    P = dict(p_intjoin=0.3, p_items=0.25, p_retry=0.2)
    js = batches("conduct", scale(tier, 160, 4000), scale(tier, 10, 100), gen="mix", p_loop=0.4, gseed=seed, P=P,
                 scheds=2, ctl=dict(req=0.07, crash=0.03, max_req=4, reqs=["pausing", "paused", "resuming", "running", "canceling"]),
                 name="random-ctl")
    js += batches("conduct", scale(tier, 120, 2000), scale(tier, 20, 100), gen="mix", p_loop=0.4, gseed=seed + 3, P=P,
                  scheds=2, name="free")
    js += batches("conduct", scale(tier, 100, 2500), scale(tier, 10, 100), gen="mix", p_loop=0.3, gseed=seed + 5,
                  P=dict(P, p_fail_cmd=0.03), scheds=2, p_fail=0.3, exotic=0.5, ctl=dict(rerun=1.0), name="default-rerun")
    js += batches("ctl_sweep", scale(tier, 20, 600), scale(tier, 2, 20), gen="mix", p_loop=0.3, gseed=seed + 7,
                  P=dict(P, nmax=6), modes=["pause"], name="pause-sweep")
    # actions canceled on the provider side (no workflow request): the workflow goes canceling through the task event
    js += batches("conduct", scale(tier, 160, 3000), scale(tier, 10, 100), gen="dag", gseed=seed + 9,
                  P=dict(P, p_items=0.6, p_retry=0.1, p_expr_conc=0.2, xs_max=4, nmax=5), scheds=3, lazy=[0, 60, 90], p_fail=0.35, exotic=0.7,
                  exotic_kinds=["canceled"], name="provider-side-cancel")
    # actions that wait at the provider (pending / paused tasks)
    js += batches("parked", scale(tier, 120, 3000), scale(tier, 10, 100), gen="dag", gseed=seed + 10, p_fail=0.15,
                  P=dict(P, p_items=0.35, p_retry=0.1, p_expr_conc=0.2, xs_max=3, nmax=5), scheds=2, name="pending-and-paused-tasks")
    # pause, then cancel while a with-items task rests between items and other actions still run
    js += batches("ctl_sweep", scale(tier, 110, 1500), scale(tier, 5, 25), gen="dag", gseed=seed + 8, p_fail=0.1,
                  P=dict(p_items=0.55, nmax=4, p_join=0.3, p_retry=0.1, p_expr_conc=0.3, xs_max=3), modes=["pause_then_cancel"],
                  name="pause-then-cancel")
    # remediation loops around a with-items task (its failure leads back to it, directly or through a plain task): every
    # visit is a new execution with all of its items
    js += batches("conduct", scale(tier, 96, 960), scale(tier, 12, 48), gen="remloop", gseed=seed + 11, scheds=2, lazy=[0, 60], p_fail=0.35,
                  name="remediation-loops-around-with-items")
    # the repository's own fixture definitions under generated outcomes, schedules and requests
    js += [dict(fn="corpus", parts=4, part=i, runs=scale(tier, 4, 40), gseed=seed, ctl=dict(req=0.08, max_req=3, reqs=["pausing", "paused", "resuming", "running", "canceling"]), name="corpus") for i in range(4)]
    # decision-shape family (exhaustive in the thorough tier, a rotating slice in the quick tier): every acyclic edge set over 4 tasks with a join x condition succeeded/failed per edge x outcome per task (4128 definitions)
    js += family_slices("ctl_sweep", 4128, 24, tier, seed, parts=12, gen="cshape", modes=["pause", "cancel"], p_fail=0.0, name="decision-shapes-sweep")
    return js


def reach(m):
    c = m["counters"]
    if c.get("status.quiescent_points", 0) < 50:
        return "only %s quiescent points" % c.get("status.quiescent_points")
    return None
