"""insertion sweeps: a pause (+ resume after rest) or a cancel inserted at *every* position of a base history"""
import importlib

from ovf.props.common import positions

from ovf import workloads
from ovf.sim import explore
from ovf.sim.provider import h64


def base_history(case, m, pseed, lazy=0):
    run = explore.make_run(case, [], model=m)
    explore.run_free(run, explore.Policy(pseed=pseed, lazy_pct=lazy, render=False))
    return run.script


def ctl_sweep(job):
    pmod = importlib.import_module(job["mod"])
    nontriv_fn = getattr(pmod, "nontrivial", None)
    out = dict(evaluations=0, nontrivial=set(), violations=[], samples=[], counters={}, sets={})
    C = out["counters"]
    only = job.get("only")
    seeds = [only[0]] if only else range(job["lo"], job["hi"])
    for seed in seeds:
        m, inputs = workloads.gen_case(job, seed)
        wf = m.render()
        if not workloads.inspect_ok(wf):
            C["definitions_rejected_by_inspection"] = C.get("definitions_rejected_by_inspection", 0) + 1
            continue
        case = dict(wf=wf, inputs=inputs, oseed=h64(job.get("gseed", 0), seed, "o") % 100000, p_fail=job.get("p_fail", 0.15))
        pseed = h64(job.get("gseed", 0), seed, "p")
        base = base_history(case, m, pseed, lazy=job.get("lazy", 30))
        C["base_histories"] = C.get("base_histories", 0) + 1
        k = 0
        for mode in job.get("modes", ["pause", "cancel"]):
            if mode == "pause_resume":
                # pause and resume at once, before anything reports: the workflow is `resuming` with actions in flight and
                # stays so until a task event takes it back to running; everything else runs its course
                for pos in positions(base):
                    for variant in range(4):
                        k += 1
                        if only and k != only[1]:
                            continue
                        run = explore.make_run(case, workloads.monitors(job.get("flags")), model=m)
                        explore.play_script(run, base[:pos])
                        if len(run.inflight) < 1:
                            continue
                        run.request(["pausing", "paused"][variant % 2])
                        run.request(["resuming", "running"][variant // 2])
                        C["insertion_points"] = C.get("insertion_points", 0) + 1
                        C["pause_resume_runs"] = C.get("pause_resume_runs", 0) + 1
                        explore.run_free(run, explore.Policy(pseed=h64(pseed, pos, variant), lazy_pct=[0, 50][variant % 2]), start=False)
                        run.finish()
                        out["evaluations"] += 1
                        workloads.collect(out, job, run, m, (seed, k), nontriv_fn,
                                          extra=dict(insert=dict(mode=mode, pos=pos, variant=variant)))
                continue
            if mode == "pause_resume_pause":
                # three requests in a row while actions are in flight: pause, resume before anything reports (the workflow
                # is then `resuming` with actions in flight), pause again
                for pos in positions(base):
                    for variant in range(4):
                        k += 1
                        if only and k != only[1]:
                            continue
                        run = explore.make_run(case, workloads.monitors(job.get("flags")), model=m)
                        explore.play_script(run, base[:pos])
                        if not run.inflight:
                            continue
                        run.request(["pausing", "paused"][variant % 2])
                        run.request(["resuming", "running"][variant // 2])
                        run.request(["pausing", "paused"][(variant + 1) % 2])
                        C["insertion_points"] = C.get("insertion_points", 0) + 1
                        C["pause_resume_pause_runs"] = C.get("pause_resume_pause_runs", 0) + 1
                        explore.run_free(run, explore.Policy(pseed=pseed, lazy_pct=job.get("lazy", 30)), start=False)
                        run.finish()
                        out["evaluations"] += 1
                        workloads.collect(out, job, run, m, (seed, k), nontriv_fn,
                                          extra=dict(insert=dict(mode=mode, pos=pos, variant=variant)))
                continue
            if mode == "pause_then_cancel":
                # two different requests in one history: pause at every position, then cancel after 0, 1 or 2 further
                # reports (a with-items task may by then rest `paused` between items while other actions still run)
                for pos in positions(base):
                    for gap in range(3):
                        k += 1
                        if only and k != only[1]:
                            continue
                        run = explore.make_run(case, workloads.monitors(job.get("flags")), model=m)
                        explore.play_script(run, base[:pos])
                        run.request(["pausing", "paused"][(pos + gap) % 2])
                        pol = explore.Policy(pseed=h64(pseed, pos, gap), lazy_pct=0)
                        for _ in range(gap):
                            if run.inflight:
                                run.complete(pol.pick(run))
                                if gap == 2:
                                    run.poll()
                        run.request(["canceling", "canceled"][gap % 2])
                        C["insertion_points"] = C.get("insertion_points", 0) + 1
                        C["pause_then_cancel_runs"] = C.get("pause_then_cancel_runs", 0) + 1
                        explore.run_free(run, explore.Policy(pseed=pseed, lazy_pct=job.get("lazy", 30)), start=False)
                        run.finish()
                        out["evaluations"] += 1
                        workloads.collect(out, job, run, m, (seed, k), nontriv_fn,
                                          extra=dict(insert=dict(mode=mode, pos=pos, gap=gap)))
                continue
            for pos in positions(base):
                for variant in range(3):
                    k += 1
                    if only and k != only[1]:
                        continue
                    req = {"pause": ["pausing", "paused"], "cancel": ["canceling", "canceled"]}[mode][variant % 2]
                    run = explore.make_run(case, workloads.monitors(job.get("flags")), model=m)
                    explore.play_script(run, base[:pos])
                    run.request(req)
                    C["insertion_points"] = C.get("insertion_points", 0) + 1
                    if variant == 2 and run.inflight:
                        # the provider forwards the request to the running actions, which report the transitional
                        # status first (canceling / pausing); canceled actions then end as canceled
                        echo = "canceling" if mode == "cancel" else "pausing"
                        order = sorted(range(len(run.inflight)), key=lambda i: h64(seed, pos, run.inflight[i]["uid"]))
                        for i in order:
                            if h64(seed, pos, i, "e") % 3:
                                run.report_status(i, echo)
                        C["provider_echo_runs"] = C.get("provider_echo_runs", 0) + 1
                        if mode == "cancel":
                            run.outcomes.force = lambda a: (("canceled", None) if h64(seed, a["uid"]) % 2 else None)
                    # the rest of the run is free; a paused workflow is resumed once it has come to rest
                    explore.run_free(run, explore.Policy(pseed=pseed, lazy_pct=job.get("lazy", 30)), start=False)
                    run.finish()
                    out["evaluations"] += 1
                    workloads.collect(out, job, run, m, (seed, k), nontriv_fn, extra=dict(insert=dict(mode=mode, pos=pos, req=req)))
    return out
