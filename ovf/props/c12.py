"""C12 - with-items: every item once, in order, within the concurrency limit (window model)."""
from ovf.props.common import batches, scale, ASSUME_SIM
from ovf.workloads import conduct, mon  # noqa: F401
from ovf.props.items_wl import items_sweep  # noqa: F401

LEVEL = "exploration"
TECHNIQUE = "runtime monitoring: harness-side item table (window model) asserted at every poll and every item report"
RULE = ("(1) dedicated one-task workloads: n in 0..7 items, concurrency absent / literal 1..n+1 / expression / <= 0, all "
        "outcome vectors for n <= 3 (sampled beyond), every order of item reports for small n (sampled beyond), eager "
        "and lazy polls, pause(+resume)/cancel at every position; (2) with-items tasks embedded in generated dag/loop "
        "definitions with retries; with-items tasks inside loops whose list is replaced and whose concurrency variable is lowered between passes; the number of items and the concurrency limit are taken from the definition and the offered context (literal limits 0-3 or an expression, also <= 0), not from what the offer says about them; non-trivial = n >= 2 and effective concurrency < n; distinct = (definition, inputs, "
        "history) digest")
ASSUMPTIONS = ASSUME_SIM


def nontrivial(run, m):
    im = mon(run, "items")
    for key, t in list(im.tables.items()) + [((t["task"], t["route"]), t) for t in im.closed]:
        k = t["k"]
        if t["n"] and t["n"] >= 2 and k is not None and (k if k > 0 else 1) < t["n"]:
            return True
    return False


def jobs(tier, seed):
    js = batches("items_sweep", scale(tier, 120, 1500), scale(tier, 8, 50), gseed=seed, max_orders=scale(tier, 24, 120), name="items-sweep")
    js += batches("conduct", scale(tier, 120, 3000), scale(tier, 20, 100), gen="mix", p_loop=0.3, gseed=seed + 1,
                  P=dict(p_items=0.5, p_retry=0.2, xs_max=6), scheds=2, lazy=[0, 60], p_fail=0.12,
                  ctl=dict(req=0.05, max_req=2, reqs=["pausing", "canceling", "paused", "canceled"], crash=0.03), name="embedded")
    # a with-items task inside a loop whose list is replaced between passes (one in-memory conductor, no restore between)
    js += batches("conduct", scale(tier, 80, 2000), scale(tier, 20, 100), gen="loop", gseed=seed + 2,
                  P=dict(p_items=0.3, p_retry=0.1, xs_max=4, p_loop_items_change=1.0, p_loop_join=0.0, p_loop_fork=0.0), scheds=2, lazy=[0, 50],
                  p_fail=0.05, name="item-list-changes-between-loop-passes")
    return js


def reach(m):
    c = m["counters"]
    if c.get("items.items_offered", 0) < 200 or c.get("items.limited", 0) < 20:
        return "items offered %s, limited tasks %s" % (c.get("items.items_offered"), c.get("items.limited"))
    return None
