"""C08 - the outcome does not depend on the order completions are reported."""
from ovf import workloads
from ovf.props.common import batches, scale, ASSUME_SIM
from ovf.props.orders import orders  # noqa: F401
from ovf.sim.provider import canon

LEVEL = "exploration"
EXHAUSTIVE = False
TECHNIQUE = "runtime monitoring: relational - terminal summaries of ALL completion orders of one scenario (stateless enumeration, each order executed on a fresh conductor) compared as a set"
RULE = ("acyclic generated definitions with outcomes fixed per (task, item, attempt) x every linearisation of the "
        "completion partial order for scenarios with <= 6 (quick) / 7 (thorough) completions (capped per scenario, "
        "the cap and the number of scenarios enumerated completely are reported), sampled orders with lazy polls for "
        "larger ones; compared: final status always; when succeeded also the executed multiset, every published value "
        "not derived from a racy variable, and every output variable that is not racy (racy = several causally "
        "unordered writers, computed by the monitor's own execution DAG); additionally the EXHAUSTIVE family of acyclic shapes over 4 tasks (every edge set with a join x every grouping of a task's outgoing edges into one transition or one per target x every per-transition choice of publishing the shared variable, once with values that record their history and once with two constants that recur: 2 x 1024 definitions, every completion order of each) and a hashed sample of the 5-task family; non-trivial = scenario with >= 2 distinct "
        "orders explored and a fork; distinct = (definition, order) digest")
ASSUMPTIONS = ASSUME_SIM + ["with fail-fast, which tasks ran before a failure legitimately depends on timing: for failed outcomes only the status is compared"]

P8 = dict(p_join=0.6, p_intjoin=0.3, p_items=0.08, p_retry=0.1, p_pub=0.7, nmin=3, nmax=6)


def nontrivial(run, m):
    return bool(m.tags & {"fork", "split", "join"})


def summary(run):
    led = workloads.mon(run, "ledger")
    s = dict(status=run.status())
    if run.status() == "succeeded":
        ex = {}
        for o in run.offers:
            k = "%s/%s/%s" % (o["task"], o["item"], o["attempt"])
            ex[k] = ex.get(k, 0) + 1
        s["executed"] = ex
        if led is not None and led.enabled and not led.stopped:
            s["pubs_all"] = [list(map(str, p[:4])) + [bool(p[4])] for p in led.pubs]
            racy = getattr(led, "racy_out", None)
            out = run.c.get_workflow_output() or {}
            if racy is not None:
                s["racy"] = set(racy)
                s["output_all"] = {name: (spec[1], out.get(name)) for name, spec, lang in run.model.output if spec[0] == "ref"}
    return s


def relate_orders(out, job, m, seed, res, exhaustive):
    C = out["counters"]
    if len(res) < 2:
        C["scenarios_single_order"] = C.get("scenarios_single_order", 0) + 1
        return
    C["scenarios_compared"] = C.get("scenarios_compared", 0) + 1
    sums = [(choices, run, summary(run)) for choices, run in res]
    ref_choices, ref_run, ref = sums[0]
    tags = set()
    for _, run, _ in sums:
        tags |= run.tags
    # whether a variable is decided by arrival order can itself depend on the order (a race at an inner join whose
    # loser is overwritten downstream in one order only): racy in ANY order of the scenario = not compared in any
    racy_vars, racy_pubs = set(), set()
    for _, _, s in sums:
        racy_vars |= s.get("racy", set())
        racy_pubs |= {tuple(p[:3]) for p in s.get("pubs_all", []) if p[4]}
    C["racy_output_vars_excluded"] = C.get("racy_output_vars_excluded", 0) + len(racy_vars)
    for _, _, s in sums:
        if "pubs_all" in s:
            s["published"] = sorted(p[:4] for p in s["pubs_all"] if tuple(p[:3]) not in racy_pubs)
        if "output_all" in s:
            s["output"] = {n: v for n, (var, v) in s["output_all"].items() if var not in racy_vars}
            C["output_vars_compared"] = C.get("output_vars_compared", 0) + len(s["output"])
    for choices, run, s in sums[1:]:
        diffs = []
        if s["status"] != ref["status"]:
            diffs.append(("status", ref["status"], s["status"]))
        elif s["status"] == "succeeded":
            for k in ("executed", "published", "output"):
                if k in s and k in ref and canon(s[k]) != canon(ref[k]):
                    diffs.append((k, ref[k], s[k]))
        if diffs:
            what = diffs[0]
            v = dict(prop="C08", kind="order_dependent_" + what[0], subject=what[0],
                     cause=sorted(tags) or None,
                     detail="completion order %s gives %s = %s, order %s gives %s" % (
                         [op[1:4] for op in ref_run.script if op[0] == "done"], what[0], canon(what[1])[:300],
                         [op[1:4] for op in run.script if op[0] == "done"], canon(what[2])[:300]),
                     step=0, workload=job.get("name"), wf=run.wf, inputs=run.inputs,
                     script=run.script, other_script=ref_run.script,
                     job=dict({k: job[k] for k in job if k not in ("lo", "hi")}, lo=seed, hi=seed + 1, only=[seed, None]))
            out["violations"].append(v)
            C["scenarios_order_dependent"] = C.get("scenarios_order_dependent", 0) + 1
            break


def jobs(tier, seed):
    js = batches("orders", scale(tier, 150, 3000), scale(tier, 8, 50), gen="dag", P=P8, gseed=seed,
                 max_orders=scale(tier, 120, 720), max_completions=scale(tier, 6, 7), p_fail=0.06, name="all-orders")
    js += batches("orders", scale(tier, 40, 800), scale(tier, 8, 50), gen="dag", P=dict(P8, p_items=0.3, xs_max=3), gseed=seed + 1,
                  max_orders=scale(tier, 120, 720), max_completions=scale(tier, 7, 8), p_fail=0.05, name="all-orders-items")
    js += batches("orders", scale(tier, 50, 1200), scale(tier, 4, 40), gen="dag", gseed=seed + 2, p_fail=0.0,
                  P=dict(P8, nmin=5, nmax=7, p_join=0.95, p_pub=0.9, p_conflict=0.95, p_items=0.0, p_retry=0.0, p_fail_cmd=0.0,
                         p_res_cond=0.0),
                  max_orders=scale(tier, 60, 400), max_completions=scale(tier, 7, 8), name="nested-joins")
    # ... with hops that publish nothing (a branch then carries only inherited entries into the next join)
    js += batches("orders", scale(tier, 50, 1200), scale(tier, 4, 40), gen="dag", gseed=seed + 3, p_fail=0.0,
                  P=dict(P8, nmin=5, nmax=7, p_join=0.95, p_pub=0.45, p_conflict=0.6, p_items=0.0, p_retry=0.0, p_fail_cmd=0.0,
                         p_res_cond=0.0),
                  max_orders=scale(tier, 60, 400), max_completions=scale(tier, 7, 8), name="nested-joins-sparse-publish")
    # exhaustive: every acyclic shape over 4 tasks x transition grouping x publish pattern (1024 definitions), every
    # completion order of each; plus a sample of the 5-task family
    js += batches("orders", 1024, 64, gen="shape", gseed=0, p_fail=0.0, max_orders=120, max_completions=6, name="shapes-4-exhaustive")
    js += batches("orders", 36, 6, gen="chain", gseed=0, p_fail=0.0, max_orders=120, max_completions=7, name="chains-with-recurring-values")
    js += batches("orders", 1024, 64, gen="shape", shape_literal=True, gseed=0, p_fail=0.0, max_orders=120, max_completions=6,
                  name="shapes-4-literal-publishes")
    js += batches("orders", scale(tier, 160, 8000), scale(tier, 16, 100), gen="shape", shape_n=5, shape_sample=True, gseed=seed + 7,
                  p_fail=0.0, max_orders=scale(tier, 60, 240), max_completions=6, name="shapes-5-sampled")
    return js


def reach(m):
    c = m["counters"]
    if c.get("scenarios_compared", 0) < 20 or c.get("orders", 0) < 200:
        return "scenarios compared %s, orders %s" % (c.get("scenarios_compared"), c.get("orders"))
    return None
