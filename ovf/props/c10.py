"""C10 - cancellation stops scheduling and ends in canceled."""
from ovf import workloads
from ovf.props.c03 import parked  # noqa: F401
from ovf.props.common import batches, family_slices, scale, ASSUME_SIM, positions
from ovf.sim import explore
from ovf.sim.provider import Monitor, h64

LEVEL = "exploration"
TECHNIQUE = "runtime monitoring: online assertions from the accepted cancel request on (no offer, canceling iff in flight, ends canceled, never succeeded/failed) + output membership check after rendering"
RULE = ("base histories = generated definitions (downstream joins, retries, with-items windows, loops) x hashed outcomes "
        "x deterministic schedules; a cancel (requested as `canceling` or `canceled`) is inserted at EVERY position, "
        "also after a pause request (from pausing / paused) and right after a resume (from resuming); every in-flight "
        "action still reports (any outcome), then the output is rendered; asserted at every later step: no offer, "
        "status canceling while an action is in flight and canceled as soon as none is, final status canceled after "
        "rendering, rendering does not raise and every output variable shows its initial value or a value published "
        "for it; additionally the decision-shape family (exhaustive in the thorough tier, a rotating slice in the quick tier): every acyclic edge set over 4 tasks with a join x condition succeeded/failed per edge x outcome per task (4128 definitions); tasks that wait at the provider (pending / paused) when the cancel request comes, their answers arriving after the workflow was canceled; further pause / resume requests after the cancel; non-trivial = cancel accepted with >= 1 action in flight; distinct = (definition, history, position, "
        "form) digest")
ASSUMPTIONS = ASSUME_SIM + ["which published value an output variable shows after a cancel is left open by the property; only membership is checked"]


class CancelOutput(Monitor):
    name = "cancelout"

    def on_init(self, run):
        self.stats = dict(outputs_checked=0, vars_checked=0, cancel_with_inflight=0, cancel_dormant=0)

    def on_offer(self, run, ev, info, action, rec):
        led = getattr(run, "ledger", None)
        if led is not None and led.enabled and not led.stopped:
            e = led.open.get((info["task"], info["route"]))
            if e is not None:
                self.execs = getattr(self, "execs", {})
                self.execs[(info["task"], info["route"])] = e

    def on_call(self, run, ev):
        if ev["op"] == "done" and ev["exc"] is None and ev["pre"]["status"] == "canceling" and ev["post"]["status"] == "canceled":
            a = ev.get("action") or {}
            self.closing = (a.get("task"), a.get("route"))  # the report that brought the workflow to rest
        if ev["op"] == "req" and ev["exc"] is None and ev["args"][0] in ("canceling", "canceled") \
                and ev["pre"]["status"] not in ("canceling", "canceled"):
            if run.inflight:
                self.stats["cancel_with_inflight"] += 1
                run.notes["cancel_nontrivial"] = True
            else:
                self.stats["cancel_dormant"] += 1
                # cause predicate (independent of the outcome): the request itself completed the workflow
                run.tags.add("canceled_by_request_while_dormant")
        if ev["op"] != "render":
            return
        if not run.ctl["cancel_req"]:
            return
        if ev["exc"] is not None:
            return  # reported by the status monitor as an escaped exception
        st = ev["post"]["status"]
        led = getattr(run, "ledger", None)
        if st != "canceled":
            if not (st == "failed" and run.notes.get("runtime_error_before_render")):
                run.viol("C10", "not_canceled_after_render", "status after rendering the output of a canceled workflow "
                         "is %s" % st, subject=st)
        if led is None or not led.enabled or run.model is None:
            return
        out = ev["post"]["output"] or {}
        self.stats["outputs_checked"] += 1
        init = {k: e.value for k, e in led.base.items()}
        pubs = {}
        for (task, tr, var, val, racy) in led.pubs:
            pubs.setdefault(var, []).append(val)
        for name, spec, lang in run.model.output:
            if spec[0] != "ref" or spec[1] not in init:
                continue
            self.stats["vars_checked"] += 1
            var = spec[1]
            if name not in out:
                errs = [x.get("message", "") for x in ev["post"]["errors"][len(ev["pre"]["errors"]):]]
                run.viol("C10", "cancel_output_lost", "output %s of the canceled workflow was not rendered although %s is "
                         "in the initial context (new errors: %s)" % (name, var, [m[:120] for m in errs][:2]), subject=name)
                break
            if out[name] != init[var] and out[name] not in pubs.get(var, []):
                run.viol("C10", "cancel_output_foreign", "output %s = %r is neither the initial value %r nor a value "
                         "published for %s" % (name, out[name], init[var], var), subject=name)
        # a value published on a transition that ended at an engine command, or carried to a task with nothing to
        # follow, reached a terminal context: the output may show it or something newer, never something older
        if not led.stopped:
            vals, racy, alts = led.expected_output()
            if vals:
                for name, spec, lang in run.model.output:
                    if spec[0] != "ref" or spec[1] in racy or spec[1] not in vals or name not in out:
                        continue
                    ent = led.out_entries[spec[1]]
                    older = [init.get(spec[1])] + [led.wvals[w] for w in ent.chain[:-1] if w in led.wvals]
                    # the same value may also have been published by a writer outside this chain (e.g. a sibling
                    # transition re-publishing `x: ctx().x`) and reach the terminal context of the task the cancellation
                    # stopped: then it is not "older", the case is ambiguous and not judged
                    elsewhere = [val for w, val in led.wvals.items() if w[2] == spec[1] and w not in ent.chain]
                    if out[name] != ent.value and out[name] in older and out[name] in elsewhere:
                        self.stats["older_rule_ambiguous_skipped"] = self.stats.get("older_rule_ambiguous_skipped", 0) + 1
                        continue
                    if out[name] != ent.value and out[name] in older and len(ent.chain) > 1:
                        run.viol("C10", "cancel_output_older_than_published", "output %s = %r although %r was published for "
                                 "%s on a transition that reached a terminal context" % (name, out[name], ent.value, spec[1]),
                                 subject=name)


        # the context of the task whose report brought the workflow to rest is part of what the output is rendered from,
        # whatever status that task ended in (canceled, failed, waiting for a retry): the output may show what it saw or
        # something newer, never something older
        e = getattr(self, "execs", {}).get(getattr(self, "closing", None))
        if e is not None and e.ectx is not None and not led.stopped and not run.ctl["reruns"]:
            self.stats["closing_task_contexts_checked"] = self.stats.get("closing_task_contexts_checked", 0) + 1
            pred = None
            for name, spec, lang in run.model.output:
                if spec[0] != "ref" or spec[1] not in e.ectx or name not in out:
                    continue
                ent = e.ectx[spec[1]]
                if ent.racy or len(ent.chain) < 1 or out[name] == ent.value:
                    continue
                older = [init.get(spec[1])] + [led.wvals[w] for w in ent.chain[:-1] if w in led.wvals]
                elsewhere = [val for w, val in led.wvals.items() if w[2] == spec[1] and w not in ent.chain]
                if out[name] in older and out[name] not in elsewhere:
                    run.viol("C10", "cancel_output_older_than_last_task_saw", "output %s = %r although task %s, whose report "
                             "brought the canceled workflow to rest, ran with %s = %r" % (name, out[name], e.task, spec[1], ent.value),
                             subject=name)


def nontrivial(run, m):
    return bool(run.notes.get("cancel_nontrivial"))


def cancel_sweep(job):
    out = dict(evaluations=0, nontrivial=set(), violations=[], samples=[], counters={}, sets={})
    C = out["counters"]
    only = job.get("only")
    for seed in ([only[0]] if only else range(job["lo"], job["hi"])):
        m, inputs = workloads.gen_case(job, seed)
        wf = m.render()
        if not workloads.inspect_ok(wf):
            C["definitions_rejected_by_inspection"] = C.get("definitions_rejected_by_inspection", 0) + 1
            continue
        case = dict(wf=wf, inputs=inputs, oseed=h64(job.get("gseed", 0), seed, "o") % 100000, p_fail=job.get("p_fail", 0.2))
        pol = explore.Policy(pseed=h64(job.get("gseed", 0), seed, "p"), lazy_pct=[0, 40][seed % 2], render=True)
        b = explore.make_run(case, [], model=m)
        explore.run_free(b, explore.Policy(pseed=pol.pseed, lazy_pct=pol.lazy_pct, render=False))
        base = b.script
        C["base_histories"] = C.get("base_histories", 0) + 1
        k = 0
        for pos in positions(base):
            for form in range(9):
                k += 1
                if only and k != only[1]:
                    continue
                if not only and h64(seed, pos, form) % job.get("thin", 2):
                    continue
                run = explore.make_run(case, workloads.monitors(job.get("flags")) + [CancelOutput()], model=m)
                explore.play_script(run, base[:pos])
                pre = None
                if form in (2, 3):
                    pre = "pausing"  # cancel from pausing / paused
                    run.request(pre)
                if form in (4, 5):
                    run.request("pausing")
                    while run.inflight:
                        run.complete(pol.pick(run))
                    run.request("resuming")  # cancel from resuming (or from whatever the resume led to)
                run.request(["canceling", "canceled"][form % 2])
                C["insertion_points"] = C.get("insertion_points", 0) + 1
                if form == 8:
                    # a rerun requested while the cancellation is still in progress must be refused
                    if run.status() == "canceling" and run.inflight:
                        evr = run.rerun(None)
                        C["reruns_while_canceling"] = C.get("reruns_while_canceling", 0) + 1
                        if evr["exc"] is None:
                            run.viol("C10", "rerun_accepted_while_canceling", "a rerun was accepted while the workflow was canceling "
                                     "with %d action(s) in flight; status now %s" % (len(run.inflight), run.status()), subject="rerun")
                if form in (6, 7):
                    # another request after the cancel (at once, or after one more report): whatever the answer, the
                    # workflow stays canceling / canceled and nothing is offered
                    if form == 7 and run.inflight:
                        run.complete(pol.pick(run))
                    run.request(["pausing", "paused", "resuming", "running"][h64(seed, pos, form) % 4])
                    C["requests_after_cancel"] = C.get("requests_after_cancel", 0) + 1
                explore.run_free(run, pol, start=False)
                run.finish()
                out["evaluations"] += 1
                workloads.collect(out, job, run, m, (seed, k), nontrivial, extra=dict(insert=dict(pos=pos, form=form)))
    return out


def jobs(tier, seed):
    P = dict(p_intjoin=0.3, p_items=0.25, p_retry=0.2, p_join=0.7, nmax=6)
    js = batches("cancel_sweep", scale(tier, 80, 2500), scale(tier, 5, 40), gen="mix", p_loop=0.25, P=P, gseed=seed,
                   thin=scale(tier, 3, 1), name="cancel-sweep")
    # decision-shape family (exhaustive in the thorough tier, a rotating slice in the quick tier): every acyclic edge set over 4 tasks with a join x condition succeeded/failed per edge x outcome per task (4128 definitions)
    js += family_slices("cancel_sweep", 4128, 48, tier, seed, gen="cshape", thin=scale(tier, 3, 1), p_fail=0.0, name="decision-shapes-cancel-sweep")
    # tasks that wait at the provider (pending / paused) when the cancel request comes: the workflow is canceled at once and
    # their answers arrive late
    js += batches("parked", scale(tier, 120, 2500), scale(tier, 10, 100), gen="dag", gseed=seed + 13, p_fail=0.35, cancel_at_rest=60, p_park=45,
                  P=dict(p_intjoin=0.2, p_items=0.2, p_retry=0.1, p_fail_cmd=0.2, nmax=5), scheds=2, name="cancel-while-a-task-waits")
    return js


def reach(m):
    c = m["counters"]
    if c.get("cancelout.cancel_with_inflight", 0) < 50 or c.get("cancelout.outputs_checked", 0) < 50:
        return "cancels with actions in flight %s, outputs checked %s" % (c.get("cancelout.cancel_with_inflight"),
                                                                       c.get("cancelout.outputs_checked"))
    return None
