"""C12 dedicated workload: one with-items task, systematic n / concurrency / outcome vector / report
order / poll placement / pause-cancel insertion"""
import importlib
import itertools
import random

from ovf import workloads
from ovf.gen import defs
from ovf.sim import explore
from ovf.sim.provider import h64


def items_model(rng, n, kspec, named=False, lang="yaql", retry=None):
    m = defs.Model()
    m.input = [("xs", []), ("k", 2)]
    m.vars = [("r", "init.r"), ("x", "init.x")]
    t = defs.Task("t")
    t.items = dict(var="xs", conc=kspec, named=None)
    t.action = "core.echo"
    t.alang = lang
    t.ainput = {"message": ("item",)}
    if retry is not None:
        t.retry = dict(count=retry, lang=lang)
    t.trans.append(defs.Tr(0, cond=("succeeded",), lang=lang, pubs=[("r", ("res",))], do=["done"]))
    if rng.random() < 0.5:  # otherwise an item failure is an unhandled task failure (needed for reruns)
        t.trans.append(defs.Tr(1, cond=("failed",), lang=lang, pubs=[("r", ("res",))], do=["noop"]))
    m.tasks["t"] = t
    d = defs.Task("done")
    m.tasks["done"] = d
    m.output = [("r", ("ref", "r"), lang)]
    defs._tag(m)
    return m


def items_sweep(job):
    pmod = importlib.import_module(job["mod"])
    nontriv_fn = getattr(pmod, "nontrivial", None)
    out = dict(evaluations=0, nontrivial=set(), violations=[], samples=[], counters={}, sets={})
    C = out["counters"]

    def cnt(k, n=1):
        C[k] = C.get(k, 0) + n

    only = job.get("only")
    seeds = [only[0]] if only else range(job["lo"], job["hi"])
    for seed in seeds:
        rng = random.Random("%s/%s/items" % (job.get("gseed", 0), seed))
        n = rng.choice([0, 1, 2, 2, 3, 3, 4, 4, 5, 6, 7])
        kk = rng.choice(["none", "lit", "lit", "lit", "expr", "expr", "nonpos"])
        inputs = {"xs": [100 + i for i in range(n)]}
        if kk == "none":
            kspec = None
        elif kk == "lit":
            kspec = rng.randint(1, n + 1)
        elif kk == "expr":
            kspec = ("expr", "k")
            inputs["k"] = rng.randint(1, n + 1)
        else:
            kspec = ("expr", "k")
            inputs["k"] = rng.choice([0, -1, -3])
        retry = rng.choice([None, None, None, 1])
        m = items_model(rng, n, kspec, lang=rng.choice(["yaql", "jinja"]), retry=retry)
        wf = m.render()
        if not workloads.inspect_ok(wf):
            cnt("definitions_rejected_by_inspection")
            continue
        # outcome vector for attempt 0 (later attempts succeed)
        if n <= 3 and rng.random() < 0.7:
            vectors = list(itertools.product(["succeeded", "failed"], repeat=n))
            vec = vectors[seed % len(vectors)]
        else:
            vec = tuple("failed" if rng.random() < 0.2 else "succeeded" for _ in range(n))
        overrides = {}
        for i, s in enumerate(vec):
            overrides["t/%d/0/None" % i] = [s, None]
            overrides["t/%d/1/None" % i] = ["succeeded", None]
        case = dict(wf=wf, inputs=inputs, oseed=seed, p_fail=0.0, overrides=overrides)
        out["sets"].setdefault("n_values", set()).add(n)
        out["sets"].setdefault("k_kinds", set()).add(kk)

        def factory():
            return explore.make_run(case, workloads.monitors(job.get("flags")), model=m)

        k = 0
        # (a) every order of item reports, eager polling (exhaustive up to max_orders)
        res, exhaustive = explore.enumerate_orders(factory, max_orders=job.get("max_orders", 24))
        cnt("report_orders", len(res))
        cnt("scenarios")
        cnt("scenarios_exhaustive", 1 if exhaustive else 0)
        for choices, run in res:
            k += 1
            if only and k != only[1]:
                continue
            run.finish()
            out["evaluations"] += 1
            workloads.collect(out, job, run, m, (seed, k), nontriv_fn)
        # (b) lazy polling: several reports between polls
        for j in range(2):
            k += 1
            if only and k != only[1]:
                continue
            run = factory()
            explore.run_free(run, explore.Policy(pseed=h64(seed, j), lazy_pct=60))
            run.finish()
            out["evaluations"] += 1
            workloads.collect(out, job, run, m, (seed, k), nontriv_fn)
        # (c) pause(+resume) / cancel at every position of one base history
        base = factory()
        explore.run_free(base, explore.Policy(pseed=h64(seed, "b"), lazy_pct=30, render=False))
        script = base.script
        for pos in range(1, len(script) + 1):
            for req in ("pausing", "canceling", "paused", "canceled"):
                k += 1
                if only and k != only[1]:
                    continue
                if not only and h64(seed, pos, req) % 2:
                    continue
                run = factory()
                explore.play_script(run, script[:pos])
                run.request(req)
                cnt("insertion_points")
                explore.run_free(run, explore.Policy(pseed=h64(seed, "b"), lazy_pct=30), start=False)
                run.finish()
                out["evaluations"] += 1
                workloads.collect(out, job, run, m, (seed, k), nontriv_fn)
        # (d) cancel after which the in-flight actions themselves report canceling and then canceled (what a
        #     provider does when it cancels the actions), in every order for small windows
        for pos in range(1, len(script) + 1):
            k += 1
            if only and k != only[1]:
                continue
            if not only and h64(seed, pos, "cc") % 2:
                continue
            run = factory()
            explore.play_script(run, script[:pos])
            if not run.inflight:
                continue
            run.request("canceling")
            order = list(range(len(run.inflight)))
            random.Random(h64(seed, pos, "o")).shuffle(order)
            for i in order:
                run.report_status(i, "canceling")
            while run.inflight:
                j = h64(seed, pos, len(run.inflight)) % len(run.inflight)
                run.complete(j, status="canceled", result=None)
                run.poll()
            cnt("cancel_reports")
            if run.status() in ("canceled", "failed", "succeeded"):
                run.render()
            run.finish()
            out["evaluations"] += 1
            workloads.collect(out, job, run, m, (seed, k), nontriv_fn)
        # (e) rerun of the failed task: default / explicit, with and without reset_items
        if any(s == "failed" for s in vec):
            for variant in (None, [("t", 0, False)], [("t", 0, True)]):
                k += 1
                if only and k != only[1]:
                    continue
                run = factory()
                explore.run_free(run, explore.Policy(pseed=h64(seed, "r"), lazy_pct=30))
                if run.status() != "failed" or run.inflight:
                    continue
                ev = run.rerun(variant)
                if ev["exc"] is None:
                    cnt("reruns")
                    run.outcomes.force = lambda a: ("succeeded", None)
                    explore.run_free(run, explore.Policy(pseed=h64(seed, "r"), lazy_pct=30), start=False)
                run.finish()
                out["evaluations"] += 1
                workloads.collect(out, job, run, m, (seed, k), nontriv_fn)
    return out
