"""C16 - values flow through unchanged; evaluation is pure; internals stay hidden."""
import copy
import math
import random

from ovf import workloads
from ovf.mon import purity
from ovf.props.common import batches, scale, ASSUME_SIM
from ovf.sim import explore
from ovf.sim.provider import h64

from orquesta.expressions import base as expr_base

LEVEL = "exploration"
TECHNIQUE = ("runtime monitoring: generated JSON values pushed through every reference form of both evaluators and through "
             "the whole data path of a real conducted workflow with a persist/restore in the middle; structural, "
             "type-strict comparison at every stage; a purity contract wrapped around both evaluators; key scans")
RULE = ("values: nested containers (depth <= 4), unicode incl. astral, combining and control characters, integers beyond "
        "64 bits, float extremes and denormals, strings that look like numbers/booleans/null/format directives/escapes, "
        "empty containers, keys with blanks - never containing an expression delimiter; stages: evaluate() with ctx(v), "
        "ctx().v, ctx('v'), ctx(\"v\") in YAQL and Jinja, alone, inside a list and inside a mapping; and the path workflow "
        "input -> vars -> action input -> action result -> publish -> next task's input -> output across "
        "serialize/deserialize; purity: the data argument of every evaluator call is deep-compared before/after; "
        "internals: ctx('__state') etc. must be refused, ctx() must show no `__*` key (bare, embedded in text, iterated by "
        "a Jinja block statement), no `__*` key in any stored delta or output, and the whole context handed to an action, "
        "published and rendered as output while conducting (inside and outside a with-items task) shows none, while a "
        "user value with a `__` key below the top level stays as it is; republish: pairs of values equal under == but of different "
        "type (True/1/1.0, 0/False/0.0, 2**53 and its float, nested ones, empty string/None/containers) published one after "
        "the other for one variable, with and without persist/restore, and a mapping-valued variable re-published by one "
        "transition while a sibling transition of the same task reads it (every ctx form, both transition orders); non-trivial = container value or a string/number from the hostile classes; distinct = value digest")
ASSUMPTIONS = ASSUME_SIM + ["NaN is excluded (not a JSON value); float comparison is exact"]

DELIMS = ("<%", "%>", "{{", "}}", "{%", "%}", "{#", "#}")
HOSTILE_STR = ["", " ", "5", "-0", "1e5", "0x10", "007", "true", "True", "false", "null", "None", "~", "%s", "%d %(x)s", "{0}",
               "{}", "{x}", "\\n", "\\u0041", "a\nb", "a\r\nb", "tab\t", "trailing\n", "\n", "nul\x00byte", "\x1b[0m", "\x7f",
               "\U0001F600", "é", "‮RTL", "﻿bom", "Ω≈ç√", "日本語", "'", '"', "it's \"q\"", "a: b", "- item",
               "# comment", "key=value", "[1, 2]", '{"a": 1}', "<script>", "%7B%7B", "{ {", "% >", "$", "$.x", "ctx(x)",
               "a" * 300, "yes", "no", "on", "off", "1_000", "+1", ".5", "5.", "Infinity", "-inf", "NaN"]
HOSTILE_NUM = [0, -0.0, 1, -1, 2 ** 31, 2 ** 63 - 1, 2 ** 63, 2 ** 64, -2 ** 63 - 1, 2 ** 70, -2 ** 100, 10 ** 30, 0.1, 0.30000000000000004,
               1e308, -1e308, 1.7976931348623157e308, 5e-324, 2.2250738585072014e-308, 1e-7, 123456789.12345679, 1.0, 100.0,
               float("inf"), float("-inf"), True, False]


def has_delim(v):
    if isinstance(v, str):
        return any(d in v for d in DELIMS)
    if isinstance(v, dict):
        return any(has_delim(k) or has_delim(x) for k, x in v.items())
    if isinstance(v, list):
        return any(has_delim(x) for x in v)
    return False


def gen_value(rng, depth=0):
    r = rng.random()
    if depth < 4 and r < 0.25:
        return [gen_value(rng, depth + 1) for _ in range(rng.choice([0, 1, 2, 3]))]
    if depth < 4 and r < 0.5:
        d = {}
        for _ in range(rng.choice([0, 1, 2, 3])):
            k = rng.choice(["a", "b", "key with blank", "", "0", "ünï", "__inner", "x.y", "a-b", "null", "true"])
            d[k] = gen_value(rng, depth + 1)
        return d
    if r < 0.72:
        return rng.choice(HOSTILE_STR)
    if r < 0.92:
        return rng.choice(HOSTILE_NUM)
    if r < 0.96:
        return None
    return "".join(chr(rng.choice([rng.randint(32, 126), rng.randint(0xA0, 0x2FF), rng.randint(0x1F300, 0x1F64F), rng.randint(1, 31)]))
                   for _ in range(rng.randint(1, 12)))


def same(a, b):
    """structural, type-strict equality"""
    if type(a) is not type(b):
        return False
    if isinstance(a, dict):
        return list(a.keys()) == list(b.keys()) and all(same(a[k], b[k]) for k in a) if len(a) == len(b) and set(a) == set(b) \
            else False
    if isinstance(a, list):
        return len(a) == len(b) and all(same(x, y) for x, y in zip(a, b))
    if isinstance(a, float):
        return a == b and math.copysign(1, a) == math.copysign(1, b)
    return a == b


def same_unordered(a, b):
    if type(a) is not type(b):
        return False
    if isinstance(a, dict):
        return set(a) == set(b) and all(same_unordered(a[k], b[k]) for k in a)
    if isinstance(a, list):
        return len(a) == len(b) and all(same_unordered(x, y) for x, y in zip(a, b))
    if isinstance(a, float):
        return a == b and math.copysign(1, a) == math.copysign(1, b)
    return a == b


FORMS = [("yaql", "<% ctx(v) %>"), ("yaql", "<% ctx().v %>"), ("yaql", "<% ctx('v') %>"), ("yaql", '<% ctx("v") %>'),
         ("jinja", "{{ ctx('v') }}"), ("jinja", "{{ ctx().v }}"), ("jinja", '{{ ctx("v") }}')]


def path_wf(lang):
    y = lang == "yaql"
    r = (lambda n: "<%% ctx(%s) %%>" % n) if y else (lambda n: "{{ ctx('%s') }}" % n)
    res = "<% result() %>" if y else "{{ result() }}"
    ok = "<% succeeded() %>" if y else "{{ succeeded() }}"
    return {"version": 1.0, "input": ["v", {"vd": "DEFAULT"}], "vars": [{"w": r("v")}, {"p": "unset"}],
            "tasks": {"t0": {"action": "core.echo", "input": {"a": r("w"), "wrapped": {"inner": [r("w")]}},
                             "next": [{"when": ok, "publish": [{"p": res}, {"q": {"k": res}}], "do": "t1"}]},
                      "t1": {"action": "core.echo", "input": {"b": r("p"), "c": r("q")}}},
            "output": [{"o": r("p")}, {"o2": r("q")}, {"o3": r("v")}, {"o4": r("vd")}]}


def values(job):
    out = dict(evaluations=0, nontrivial=set(), violations=[], samples=[], counters={}, sets={})
    C = out["counters"]
    ep = purity.EvalPurity.install()

    def cnt(k, n=1):
        C[k] = C.get(k, 0) + n

    def viol(kind, detail, seed, value, subject=None):
        out["violations"].append(dict(prop="C16", kind=kind, detail=detail[:600], subject=subject, cause=None,
                                      value=repr(value)[:400], workload=job.get("name"),
                                      job=dict({k: job[k] for k in job if k not in ("lo", "hi")}, only=[seed], lo=seed, hi=seed + 1)))

    only = job.get("only")
    for seed in ([only[0]] if only else range(job["lo"], job["hi"])):
        rng = random.Random("%s/%s/val" % (job.get("gseed", 0), seed))
        v = gen_value(rng)
        if has_delim(v):
            cnt("values_with_delimiters_skipped")
            continue
        out["evaluations"] += 1
        if isinstance(v, (list, dict)) or v in HOSTILE_STR or (isinstance(v, (int, float)) and not isinstance(v, bool) and abs(v) > 2 ** 31):
            out["nontrivial"].add(workloads.digest(repr(v)))
        out["sets"].setdefault("value_types", set()).add(type(v).__name__)
        # ---- stage 1: every reference form, alone / in a list / in a mapping
        for lang, expr in FORMS:
            for shape in ("alone", "list", "map"):
                stmt = expr if shape == "alone" else ([expr, "lit"] if shape == "list" else {"k": expr, "n": 1})
                ctx = {"v": copy.deepcopy(v), "other": 1, "__state": {"tasks": {}}, "__current_task": {"id": "t", "route": 0}}
                try:
                    r = expr_base.evaluate(stmt, ctx)
                except Exception as e:
                    viol("evaluate_raised", "%s on %s raised %s: %s" % (expr, shape, type(e).__name__, str(e)[:200]), seed, v, subject=lang)
                    continue
                cnt("evaluations_compared")
                got = r if shape == "alone" else (r[0] if shape == "list" else r["k"])
                if not same_unordered(got, v):
                    viol("value_changed_by_evaluate", "%s (%s) returned %r for %r" % (expr, shape, got, v), seed, v, subject=lang)
        # ---- stage 2: the whole data path with a persist/restore in the middle
        for lang in ("yaql", "jinja"):
            wf = path_wf(lang)
            if not workloads.inspect_ok(wf):
                cnt("path_wf_rejected")
                continue
            ms = [m for m in workloads.monitors(dict(double_poll=False)) if m.name in ("keyscan", "status")]
            run = explore.make_run(dict(wf=wf, inputs={"v": copy.deepcopy(v), "vd": copy.deepcopy(v)}, oseed=0, p_fail=0.0), ms, model=None)
            run.outcomes.force = lambda a, vv=v: (("succeeded", copy.deepcopy(vv), True) if a["task"] == "t0" else ("succeeded", None))
            run.request("running")
            run.poll()
            stages = {}
            if run.offers:
                stages["action input"] = (run.offers[0].get("input") or {}).get("a", "<absent>")
                stages["nested action input"] = ((run.offers[0].get("input") or {}).get("wrapped") or {}).get("inner", ["<absent>"])[0]
            run.crash()
            if run.inflight:
                run.complete(0)
            run.crash()
            run.poll()
            t1 = [o for o in run.offers if o["task"] == "t1"]
            if t1:
                stages["published -> next input"] = (t1[0].get("input") or {}).get("b", "<absent>")
                stages["published in mapping"] = ((t1[0].get("input") or {}).get("c") or {}).get("k", "<absent>")
                stages["offered context"] = t1[0]["ctx"].get("p", "<absent>")
            while run.inflight:
                run.complete(0)
            run.poll()
            run.crash()
            if run.status() in ("succeeded", "failed"):
                run.render()
            o = run.c.get_workflow_output() or {}
            stages["output"] = o.get("o", "<absent>")
            stages["output via mapping"] = (o.get("o2") or {}).get("k", "<absent>") if isinstance(o.get("o2"), dict) else "<absent>"
            stages["output of input"] = o.get("o3", "<absent>")
            stages["output of input that has a default"] = o.get("o4", "<absent>")
            run.finish()
            ep.drain(run)
            cnt("path_runs")
            if run.status() != "succeeded":
                viol("path_failed", "%s data path ended %s with errors %r" % (lang, run.status(), run.c.errors[:2]), seed, v, subject=lang)
            else:
                for name, got in stages.items():
                    cnt("stages_compared")
                    if not same_unordered(got, v):
                        viol("value_changed_on_path", "%s path, stage %s: %r became %r" % (lang, name, v, got), seed, v, subject=name)
                        break
            for x in run.violations:
                if x["prop"] == "C16":
                    viol(x["kind"], x["detail"], seed, v, subject=x.get("subject"))
        if len(out["samples"]) < 2 and isinstance(v, (dict, list)) and v:
            out["samples"].append(dict(value=repr(v)[:300], forms=[f[1] for f in FORMS], path="input->vars->action input->result->publish->input->output"))
    C["evaluator_purity_checks"] = C.get("evaluator_purity_checks", 0) + ep.evaluations
    ep.evaluations = 0
    return out


TWINS = [(True, 1), (1, True), (1, 1.0), (1.0, 1), (0, False), (False, 0), (0, 0.0), (0.0, 0), (2 ** 53, float(2 ** 53)),
         (float(2 ** 64), 2 ** 64), ([1], [True]), ([1.0], [1]), ({"k": 1}, {"k": True}), ({"k": [1, {"z": 0}]}, {"k": [1.0, {"z": False}]}),
         ("", None), (None, ""), ([], {}), ({}, []), ("1", 1), (1, "1"), ("true", True), (None, 0), (0, None), (None, False)]


def republish(job):
    """values that are equal under == but differ in type, published one after the other for the same variable; and a
    mapping-valued variable re-published by one transition while a sibling transition of the same task reads it"""
    out = dict(evaluations=0, nontrivial=set(), violations=[], samples=[], counters={}, sets={})
    C = out["counters"]

    def viol(kind, detail, subject=None):
        out["violations"].append(dict(prop="C16", kind=kind, detail=detail[:600], subject=subject, cause=None,
                                      workload="republish", job=dict(job)))

    def conduct(wf, results, label):
        ms = [m for m in workloads.monitors(dict(double_poll=False)) if m.name in ("keyscan", "status")]
        run = explore.make_run(dict(wf=wf, inputs={}, oseed=0, p_fail=0.0), ms, model=None, label=label)
        run.outcomes.force = lambda a: ("succeeded", copy.deepcopy(results.get(a["task"])), True)
        explore.run_free(run, explore.Policy(pseed=1))
        run.finish()
        for x in run.violations:
            if x["prop"] == "C16":
                viol(x["kind"], x["detail"], subject=x.get("subject"))
        return run

    for lang in ("yaql", "jinja"):
        y = lang == "yaql"
        r = (lambda n: "<%% ctx(%s) %%>" % n) if y else (lambda n: "{{ ctx('%s') }}" % n)
        res = "<% result() %>" if y else "{{ result() }}"
        for v1, v2 in TWINS:
            wf = {"version": 1.0, "vars": [{"a": "unset"}],
                  "tasks": {"t0": {"action": "core.echo", "next": [{"publish": [{"a": res}], "do": "t1"}]},
                            "t1": {"action": "core.echo", "input": {"x": r("a")}, "next": [{"publish": [{"a": res}], "do": "t2"}]},
                            "t2": {"action": "core.echo", "input": {"x": r("a")}}},
                  "output": [{"a": r("a")}]}
            if not workloads.inspect_ok(wf):
                C["republish_rejected"] = C.get("republish_rejected", 0) + 1
                continue
            for crash in (False, True):
                run = conduct(wf, {"t0": v1, "t1": v2, "t2": None}, "twins %r %r %s" % (v1, v2, lang))
                if crash:
                    # same history with a persist / restore before every completion
                    run = explore.make_run(dict(wf=wf, inputs={}, oseed=0, p_fail=0.0), [], model=None)
                    run.outcomes.force = lambda a, v1=v1, v2=v2: ("succeeded", copy.deepcopy({"t0": v1, "t1": v2}.get(a["task"])), True)
                    run.request("running")
                    for _ in range(8):
                        run.poll()
                        run.crash()
                        if not run.inflight:
                            break
                        run.complete(0)
                    if run.status() == "succeeded":
                        run.render()
                out["evaluations"] += 1
                out["nontrivial"].add("twins %r %r %s %s" % (v1, v2, lang, crash))
                C["type_twin_runs"] = C.get("type_twin_runs", 0) + 1
                seen = {}
                for o in run.offers:
                    if o["task"] in ("t1", "t2"):
                        seen["input of %s" % o["task"]] = ((o.get("input") or {}).get("x", "<absent>"), v1 if o["task"] == "t1" else v2)
                seen["output"] = ((run.c.get_workflow_output() or {}).get("a", "<absent>"), v2)
                if run.status() != "succeeded" or len(seen) < 3:
                    viol("path_failed", "type-twin path %r -> %r (%s) ended %s, saw %r, errors %r"
                         % (v1, v2, lang, run.status(), sorted(seen), run.c.errors[:2]), subject=lang)
                    continue
                for where, (got, want) in seen.items():
                    C["type_twin_stages"] = C.get("type_twin_stages", 0) + 1
                    if not same_unordered(got, want):
                        viol("value_changed_on_path", "%s: %s is %r (%s), the value published last is %r (%s); published before: %r"
                             % (lang, where, got, type(got).__name__, want, type(want).__name__, v1), subject=where)
                        break
        # mapping-valued variable: one transition re-publishes it, a sibling transition of the same task reads it
        old = {"a": 1, "n": {"k": 1}, "l": [1, {"m": 1}]}
        new = {"b": 2, "n": {"j": 2}, "l": [2]}
        reads = ["<% ctx().cfg %>", "<% ctx(cfg) %>"] if y else ["{{ ctx().cfg }}", "{{ ctx('cfg') }}"]
        for read in reads:
            for order in (0, 1):
                tr_pub = {"publish": [{"cfg": copy.deepcopy(new)}], "do": "t1"}
                tr_read = {"publish": [{"seen": read}], "do": "t2"}
                wf = {"version": 1.0, "vars": [{"cfg": copy.deepcopy(old)}, {"seen": None}],
                      "tasks": {"t0": {"action": "core.noop", "next": [tr_pub, tr_read] if order == 0 else [tr_read, tr_pub]},
                                "t1": {"action": "core.echo", "input": {"c": r("cfg")}},
                                "t2": {"action": "core.echo", "input": {"c": r("cfg"), "s": r("seen")}}},
                      "output": [{"seen": r("seen")}]}
                if not workloads.inspect_ok(wf):
                    C["republish_rejected"] = C.get("republish_rejected", 0) + 1
                    continue
                run = conduct(wf, {}, "sibling %s %d" % (read, order))
                out["evaluations"] += 1
                out["nontrivial"].add("sibling %s %d" % (read, order))
                C["sibling_runs"] = C.get("sibling_runs", 0) + 1
                seen = {}
                for o in run.offers:
                    i = o.get("input") or {}
                    if o["task"] == "t1":
                        seen["t1 input cfg"] = (i.get("c", "<absent>"), new)
                    if o["task"] == "t2":
                        seen["t2 input cfg"] = (i.get("c", "<absent>"), old)
                        seen["t2 input seen"] = (i.get("s", "<absent>"), old)
                seen["output seen"] = ((run.c.get_workflow_output() or {}).get("seen", "<absent>"), old)
                st = run.c.serialize()["state"]["contexts"]
                seen["initial context cfg"] = (st[0].get("cfg"), old)
                if run.status() != "succeeded" or len(seen) < 5:
                    viol("path_failed", "sibling-transition path (%s, order %d) ended %s, saw %r, errors %r"
                         % (read, order, run.status(), sorted(seen), run.c.errors[:2]), subject=lang)
                    continue
                for where, (got, want) in seen.items():
                    C["sibling_stages"] = C.get("sibling_stages", 0) + 1
                    if not same_unordered(got, want):
                        viol("value_changed_on_path", "%s / transition order %d: %s is %r, expected %r (a sibling transition "
                             "published %r for cfg)" % (read, order, where, got, want, new), subject=where)
                        break
    return out


def internals(job):
    """engine internals are never readable through ctx and never leak"""
    out = dict(evaluations=0, nontrivial=set(), violations=[], samples=[], counters={}, sets={})
    C = out["counters"]

    def viol(kind, detail, subject=None):
        out["violations"].append(dict(prop="C16", kind=kind, detail=detail[:500], subject=subject, cause=None,
                                      workload="internals", job=dict(job)))

    ctx = {"x": 1, "__state": {"secret": 1}, "__current_task": {"id": "t", "route": 0, "result": 5}, "__current_item": 7,
           "__custom": "hidden"}
    for name in ("__state", "__current_task", "__current_item", "__custom"):
        for expr in ("<%% ctx(%s) %%>" % name, "<%% ctx('%s') %%>" % name, "{{ ctx('%s') }}" % name, '{{ ctx("%s") }}' % name,
                     "<%% ctx().%s %%>" % name, "{{ ctx().%s }}" % name, "<%% ctx().get(%s) %%>" % name,
                     "{{ ctx().get('%s') }}" % name, "{{ ctx()['%s'] }}" % name,
                     # a dotted path below the internal name, in case the context function resolves such keys
                     '<%% ctx("%s.id") %%>' % name, "<%% ctx('%s.secret') %%>" % name, "{{ ctx('%s.id') }}" % name,
                     '{{ ctx("%s.status") }}' % name, "<%% ctx(%s).id %%>" % name, "{{ ctx('%s').id }}" % name):
            out["evaluations"] += 1
            out["nontrivial"].add(expr)
            try:
                r = expr_base.evaluate(expr, copy.deepcopy(ctx))
            except Exception:
                C["refused"] = C.get("refused", 0) + 1
                continue
            if r is not None:
                viol("internal_readable", "%s returned %r" % (expr, r), subject=name)
            else:
                C["hidden_as_null"] = C.get("hidden_as_null", 0) + 1
    for expr in ("<% ctx() %>", "{{ ctx() }}", "<% ctx().keys() %>", "{{ ctx().keys() | list }}"):
        out["evaluations"] += 1
        r = expr_base.evaluate(expr, copy.deepcopy(ctx))
        keys = list(r.keys()) if isinstance(r, dict) else list(r)
        if any(str(k).startswith("__") for k in keys):
            viol("internal_in_ctx", "%s shows %r" % (expr, keys), subject="ctx()")
    # the whole context read in other documented forms (text around it, Jinja block statements)
    for expr in ("keys: <% ctx().keys() %>", "{% for k in ctx() %}{{ k }},{% endfor %}",
                 "{% for k, v in ctx().items() %}{{ k }}={{ v }};{% endfor %}", "whole {{ ctx() }}", "whole <% ctx() %>",
                 "{% if ctx().__state %}leak{% endif %}ok", "{% if ctx('__state') %}leak{% endif %}ok"):
        out["evaluations"] += 1
        out["nontrivial"].add(expr)
        try:
            r = expr_base.evaluate(expr, copy.deepcopy(ctx))
        except Exception:
            C["refused"] = C.get("refused", 0) + 1
            continue
        C["text_forms_evaluated"] = C.get("text_forms_evaluated", 0) + 1
        if any(w in str(r) for w in ("__state", "__current", "__custom", "secret", "hidden", "leak")):
            viol("internal_in_ctx", "%s renders %r" % (expr, r), subject="ctx()")
    # ... and while conducting: the whole context handed to an action, published and rendered as output, inside and
    # outside a with-items task (where the engine keeps __current_item / __current_task / __state in the context);
    # a user value that itself has a double-underscore key below the top level must stay as it is
    for E in ("<% ctx() %>", "{{ ctx() }}", "<% ctx().keys() %>", "{{ ctx().keys() | list }}",
              "{% for k in ctx() %}{{ k }},{% endfor %}"):
        wf = {"version": 1.0, "input": [{"xs": [1, 2]}], "vars": [{"a": 1}, {"nested": {"__user": 5}}],
              "tasks": {"t0": {"action": "core.echo", "input": {"message": E},
                               "next": [{"publish": [{"snap": E}], "do": "t1"}]},
                        "t1": {"with": {"items": "<% ctx(xs) %>"}, "action": "core.echo", "input": {"message": E},
                               "next": [{"publish": [{"snap2": E}, {"res": "<% result() %>"}], "do": "t2"}]},
                        "t2": {"action": "core.noop"}},
              "output": [{"snap": "<% ctx(snap) %>"}, {"snap2": "<% ctx(snap2) %>"}, {"whole": E}]}
        if not workloads.inspect_ok(wf):
            C["internals_definitions_rejected"] = C.get("internals_definitions_rejected", 0) + 1
            continue
        run = explore.make_run(dict(wf=wf, inputs={}, oseed=3, p_fail=0.0), [m for m in workloads.monitors() if m.name != "ledger"],
                               model=None, label="internals %s" % E)
        explore.run_free(run, explore.Policy(pseed=1))
        run.finish()
        out["evaluations"] += 1
        out["nontrivial"].add("conducted " + E)
        C["internals_conducted"] = C.get("internals_conducted", 0) + 1
        seen = [("action input of %s" % o["task"], (o.get("input") or {}).get("message")) for o in run.offers]
        st = run.c.serialize()["state"]
        for i, d in enumerate(st["contexts"]):
            for k in ("snap", "snap2"):
                if k in d:
                    seen.append(("published %s" % k, d[k]))
        for k, v in (run.c.get_workflow_output() or {}).items():
            seen.append(("output %s" % k, v))
        if run.status() != "succeeded" or len(seen) < 8:
            viol("internals_workload_broken", "status %s, %d observations, errors %r" % (run.status(), len(seen), run.c.errors[:2]))
        for where, v in seen:
            C["internals_observations"] = C.get("internals_observations", 0) + 1
            top = list(v.keys()) if isinstance(v, dict) else (list(v) if isinstance(v, (list, tuple)) else
                                                              [x for x in str(v).split(",")])
            if any(str(k).strip().startswith("__") for k in top):
                viol("internal_leaked", "%s of %s shows engine internals: %r" % (where, E, top), subject=where.split(" ")[0])
            if isinstance(v, dict) and v.get("nested") != {"__user": 5}:
                viol("value_changed_by_evaluate", "%s of %s: user value nested = %r, expected {'__user': 5}"
                     % (where, E, v.get("nested")), subject="nested")
        for v in run.violations:
            if v["prop"] == "C16":
                out["violations"].append(dict(v, workload="internals", job=dict(job)))
    return out


def nontrivial(run, m):
    return True


def conduct_purity(job):
    """the purity contract and the key scans under the generic conducting workload"""
    ep = purity.EvalPurity.install()
    out = workloads.conduct(dict(job, flags=dict(double_poll=False)))
    out["counters"]["evaluator_purity_checks"] = ep.evaluations
    for v in ep.violations:
        out["violations"].append(dict(prop="C16", kind="evaluate_mutated_context", subject=v["evaluator"], cause=None,
                                      detail="%s.evaluate(%r) modified the context it was given: keys %r"
                                      % (v["evaluator"], v["text"], v["changed"]), workload=job.get("name"), job=dict(job)))
    ep.violations = []
    ep.evaluations = 0
    return out


def jobs(tier, seed):
    js = batches("values", scale(tier, 2400, 40000), scale(tier, 150, 500), gseed=seed, name="values")
    js += [dict(fn="internals", name="internals"), dict(fn="republish", name="republish")]
    js += batches("conduct_purity", scale(tier, 60, 2000), scale(tier, 10, 100), gen="mix", p_loop=0.3, gseed=seed + 1,
                  P=dict(p_pub=0.8, p_items=0.2, p_retry=0.2, p_ainput=0.5), scheds=1, name="purity-under-conducting")
    if tier == "thorough":
        # the repository's own tests under the state-independent monitors
        js += [dict(fn="suite_under_monitors", name="suite-under-monitors")]
    return js


def reach(m):
    c = m["counters"]
    if c.get("evaluator_purity_checks", 0) < 1000 or c.get("stages_compared", 0) < 500:
        return "purity checks %s, stages compared %s" % (c.get("evaluator_purity_checks"), c.get("stages_compared"))
    return None
