"""C18 - the execution history is append-only; finished records never change."""
from ovf.props.common import batches, scale, ASSUME_SIM
from ovf.workloads import conduct, corpus, mon  # noqa: F401
from ovf.props.sweeps import ctl_sweep  # noqa: F401

LEVEL = "exploration"
TECHNIQUE = "runtime monitoring: prefix / frozen-record comparison on every pair of consecutive persisted states"
RULE = ("all generated classes (multiply-referenced tasks, integer and all joins, with-items, retries, loops) x hashed "
        "outcomes x seeded schedules with control requests, crashes and reruns of failed workflows; after EVERY API call "
        "the persisted state is compared with the previous one (identity, context references, status, decisions and published references of every record; every other field of a finished, decided record except the terminal marker that a rerun clears by design); non-trivial = history in which the sequence grew while "
        "at least 2 earlier records existed; distinct = (definition, history) digest")
ASSUMPTIONS = ASSUME_SIM


def nontrivial(run, m):
    am = mon(run, "appendonly")
    return am.stats["grown"] >= 3


def rerun_inflight(job):
    """as soon as the workflow fails it is rerun (default request) while other actions are still in flight; their
    reports arrive after the rerun"""
    from ovf import workloads
    from ovf.sim import explore
    from ovf.sim.provider import h64
    out = dict(evaluations=0, nontrivial=set(), violations=[], samples=[], counters={}, sets={})
    only = job.get("only")
    for seed in ([only[0]] if only else range(job["lo"], job["hi"])):
        m, inputs = workloads.gen_case(job, seed)
        wf = m.render()
        if not workloads.inspect_ok(wf):
            continue
        for sched in range(2):
            case = dict(wf=wf, inputs=inputs, oseed=h64(job.get("gseed", 0), seed, "o") % 100000, p_fail=0.3)
            run = explore.make_run(case, workloads.monitors(), model=m)
            state = dict(done=False)

            def hook(run, phase, state=state):
                if phase == "after_done" and not state["done"] and run.status() == "failed" and run.inflight:
                    state["done"] = True
                    ev = run.rerun(None)
                    if ev["exc"] is None:
                        run.outcomes.force = lambda a: ("succeeded", None)
                        out["counters"]["reruns_with_actions_in_flight"] = out["counters"].get("reruns_with_actions_in_flight", 0) + 1

            explore.run_free(run, explore.Policy(pseed=h64(seed, sched), lazy_pct=job.get("lazy", 50) * sched), hook=hook)
            run.finish()
            out["evaluations"] += 1
            workloads.collect(out, job, run, m, (seed, sched), nontrivial)
    return out


def jobs(tier, seed):
    P = dict(p_intjoin=0.4, p_intjoin_less=0.3, p_items=0.25, p_retry=0.25)
    js = batches("conduct", scale(tier, 260, 5000), scale(tier, 20, 100), gen="mix", p_loop=0.35, P=P, gseed=seed,
                 scheds=2, lazy=[0, 60], name="free")
    js += batches("conduct", scale(tier, 160, 3000), scale(tier, 20, 100), gen="mix", p_loop=0.35, P=P, gseed=seed + 1,
                  scheds=2, lazy=[0, 60], ctl=dict(req=0.07, max_req=3, crash=0.04, early_render=0.3, rerun=0.7), name="random-ctl")
    # failed workflows with actions still in flight are rerun at once (late reports arrive after the rerun)
    js += batches("rerun_inflight", scale(tier, 120, 2500), scale(tier, 15, 100), gen="mix", p_loop=0.2, P=P, gseed=seed + 2, name="rerun-with-late-reports")
    js += batches("rerun_inflight", scale(tier, 640, 8000), scale(tier, 40, 200), gen="dag", gseed=seed + 3, lazy=80,
                  P=dict(p_join=0.9, p_intjoin=0.9, p_intjoin_less=0.9, nmax=5, p_items=0.05, p_retry=0.05), name="rerun-int-joins")
    # the repository's own fixture definitions under generated outcomes, schedules and requests
    js += [dict(fn="corpus", parts=4, part=i, runs=scale(tier, 4, 40), gseed=seed, ctl=dict(req=0.06, max_req=2, crash=0.05), name="corpus") for i in range(4)]
    if tier == "thorough":
        # the repository's own tests under the state-independent monitors
        js += [dict(fn="suite_under_monitors", name="suite-under-monitors")]
    return js


def reach(m):
    c = m["counters"]
    if c.get("appendonly.pairs", 0) < 5000:
        return "only %s state pairs compared" % c.get("appendonly.pairs")
    return None
