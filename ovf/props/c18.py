"""C18 - the execution history is append-only; finished records never change."""
from ovf.props.common import batches, scale, ASSUME_SIM
from ovf.workloads import conduct, mon  # noqa: F401
from ovf.props.sweeps import ctl_sweep  # noqa: F401

LEVEL = "exploration"
TECHNIQUE = "runtime monitoring: prefix / frozen-record comparison on every pair of consecutive persisted states"
RULE = ("all generated classes (multiply-referenced tasks, integer and all joins, with-items, retries, loops) x hashed "
        "outcomes x seeded schedules with control requests, crashes and reruns of failed workflows; after EVERY API call "
        "the persisted state is compared with the previous one; non-trivial = history in which the sequence grew while "
        "at least 2 earlier records existed; distinct = (definition, history) digest")
ASSUMPTIONS = ASSUME_SIM


def nontrivial(run, m):
    am = mon(run, "appendonly")
    return am.stats["grown"] >= 3


def jobs(tier, seed):
    P = dict(p_intjoin=0.4, p_intjoin_less=0.3, p_items=0.25, p_retry=0.25)
    js = batches("conduct", scale(tier, 260, 5000), scale(tier, 20, 100), gen="mix", p_loop=0.35, P=P, gseed=seed,
                 scheds=2, lazy=[0, 60], name="free")
    js += batches("conduct", scale(tier, 160, 3000), scale(tier, 20, 100), gen="mix", p_loop=0.35, P=P, gseed=seed + 1,
                  scheds=2, lazy=[0, 60], ctl=dict(req=0.07, max_req=3, crash=0.04, early_render=0.3), name="random-ctl")
    return js


def reach(m):
    c = m["counters"]
    if c.get("appendonly.pairs", 0) < 5000:
        return "only %s state pairs compared" % c.get("appendonly.pairs")
    return None
