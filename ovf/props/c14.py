"""C14 - the composed graph is exactly the definition's tasks and transitions (reference graph builder)."""
import copy
import itertools
import json
import random
from collections import Counter

from ovf import workloads
from ovf.props.common import batches, scale

from orquesta import graphing
from orquesta.composers import native as composer
from orquesta.specs import native as native_specs

LEVEL = "exploration"
TECHNIQUE = "runtime monitoring of the composer: an independent reference graph builder (own reachability, own `do` splitting, own edge-key rule) compared with compose() on generated shapes, all declaration-order permutations and serialisation round trips"
RULE = ("generated shape-only definitions with 1-12 tasks: arbitrary fan-out/fan-in, nested and mixed splits, several "
        "transitions between the same pair of tasks, cycles (back edges), engine commands incl. `retry`, comma-separated "
        "and list `do`, omitted `do`, join all / N / 0, retry specs; every definition inspect() accepts is composed and "
        "compared with the reference on nodes, (source, target, key, criteria, ref) edges, barrier and retry attributes "
        "and roots; all permutations of the declaration order for <= 4 (quick) / 5 (thorough) tasks (6 / 20 sampled beyond); "
        "deserialize(serialize()) compared exactly; non-trivial = a task reached along >= 2 paths or a parallel edge; "
        "distinct = definition digest")
ASSUMPTIONS = ["the reference builder encodes the reading of the property stated in DESIGN.md (edge key = rank of the "
               "transition among those of the same source to the same target in (target, position) order; a `retry` "
               "command becomes {when: condition or completed(), count: 3})"]
CMDS = ("continue", "noop", "fail", "retry")
WHENS = ["<% succeeded() %>", "<% failed() %>", "{{ completed() }}", "<% result().v = 1 %>", "{{ succeeded() and result().v == 2 }}"]


def gen_shape(rng, nmax=8):
    n = rng.randint(1, nmax)
    names = ["t%d" % i for i in range(n)]
    p_back = rng.choice([0.0, 0.0, 0.15, 0.3])
    tasks = {}
    for i, nm in enumerate(names):
        t = {"action": "core.noop"}
        trs = []
        for ti in range(rng.choice([0, 1, 1, 2, 2, 3, 4])):
            tr = {}
            if rng.random() < 0.6:
                tr["when"] = rng.choice(WHENS)
            pool = names if rng.random() < p_back else names[i + 1:]
            k = rng.choice([0, 1, 1, 2, 3])
            do = rng.sample(pool, min(k, len(pool))) if pool else []
            if rng.random() < 0.25:
                do.append(rng.choice(CMDS))
            if do:
                r = rng.random()
                if r >= 0.55 and rng.random() < 0.2:
                    do = do + [rng.choice(do)]  # the string form may name a target twice (the list form is unique by schema)
                tr["do"] = list(do) if r < 0.55 else (", ".join(do) if r < 0.85 else ",".join(do))
            if rng.random() < 0.3:
                tr["publish"] = [{"v": 1}] if rng.random() < 0.6 else "v=1 w=<% result() %>"
            if tr:
                trs.append(tr)
        if trs:
            t["next"] = trs
        if rng.random() < 0.3:
            t["join"] = rng.choice(["all", "all", 1, 2, 3, 0])
        if rng.random() < 0.2:
            r = {"count": rng.randint(0, 3)}
            if rng.random() < 0.5:
                r["delay"] = rng.randint(0, 5)
            if rng.random() < 0.5:
                r["when"] = rng.choice(WHENS[:3])
            t["retry"] = r
        tasks[nm] = t
    return {"version": 1.0, "tasks": tasks}


def ref_graph(wf):
    tasks = wf["tasks"]

    def trans(nm):
        out = []
        for i, tr in enumerate(tasks.get(nm, {}).get("next") or []):
            do = tr.get("do") or "continue"
            if isinstance(do, str):
                do = [x.strip() for x in do.split(",")]
            for d in do:
                out.append((d, tr.get("when"), i))
        return out

    inbound = {nm: 0 for nm in tasks}
    for nm in tasks:
        for d, w, i in trans(nm):
            if d in inbound:
                inbound[d] += 1
    starts = sorted(nm for nm in tasks if not inbound[nm])
    seen = []
    q = list(starts)
    while q:
        x = q.pop(0)
        if x in seen:
            continue
        seen.append(x)
        if x in tasks:
            for d, w, i in trans(x):
                if d != "retry" and d not in seen:
                    q.append(d)
    nodes, edges = {}, set()
    for x in seen:
        attrs = {}
        if x in tasks:
            t = tasks[x]
            if t.get("join") is not None:
                attrs["barrier"] = "*" if t["join"] == "all" else t["join"]
            if t.get("retry"):
                attrs["retry"] = {"when": t["retry"].get("when"), "count": t["retry"].get("count"),
                                  "delay": t["retry"].get("delay")}
            rank = Counter()
            done = set()
            for d, w, i in sorted(trans(x), key=lambda z: z[0]):
                if d == "retry":
                    attrs["retry"] = {"when": w or "<% completed() %>", "count": 3}
                    continue
                if (d, i) in done:
                    continue
                done.add((d, i))
                edges.add((x, d, rank[d], json.dumps([w] if w else []), i))
                rank[d] += 1
        nodes[x] = attrs
    return nodes, edges, starts


def impl_graph(g):
    d = g.serialize()
    nodes = {}
    for n in d["nodes"]:
        nodes[n["id"]] = {k: v for k, v in n.items() if k in ("barrier", "retry")}
    edges = set()
    for n, adj in zip(d["nodes"], d["adjacency"]):
        for e in adj:
            edges.add((n["id"], e["id"], e["key"], json.dumps(e.get("criteria", [])), e.get("ref")))
    return nodes, edges, [r["id"] for r in g.roots]


def nontriv(wf, R):
    nodes, edges, starts = R
    indeg = Counter(e[1] for e in edges)
    par = Counter((e[0], e[1]) for e in edges)
    return any(v >= 2 for k, v in indeg.items() if k not in CMDS) or any(v >= 2 for v in par.values())


def graphs(job):
    out = dict(evaluations=0, nontrivial=set(), violations=[], samples=[], counters={}, sets={})
    C = out["counters"]

    def cnt(k, n=1):
        C[k] = C.get(k, 0) + n

    def viol(kind, detail, wf, seed, subject=None):
        out["violations"].append(dict(prop="C14", kind=kind, detail=detail[:700], subject=subject, cause=None, wf=wf,
                                      workload=job.get("name"),
                                      job=dict({k: job[k] for k in job if k not in ("lo", "hi")}, only=[seed], lo=seed, hi=seed + 1)))

    only = job.get("only")
    for seed in ([only[0]] if only else range(job["lo"], job["hi"])):
        rng = random.Random("%s/%s/shape" % (job.get("gseed", 0), seed))
        wf = gen_shape(rng, nmax=job.get("nmax", 8))
        spec = native_specs.WorkflowSpec(copy.deepcopy(wf))
        if spec.inspect():
            cnt("definitions_rejected_by_inspection")
            continue
        out["evaluations"] += 1
        cnt("definitions_accepted")
        try:
            g = composer.WorkflowComposer.compose(spec)
        except Exception as e:
            viol("compose_raised", "compose() raised %s: %s" % (type(e).__name__, e), wf, seed)
            continue
        I, R = impl_graph(g), ref_graph(wf)
        if nontriv(wf, R):
            out["nontrivial"].add(workloads.digest(wf))
        cnt("edges_compared", len(R[1]))
        cnt("nodes_compared", len(R[0]))
        if any(k in CMDS for k in R[0]):
            cnt("graphs_with_engine_commands")
        if any(v >= 2 for v in Counter((e[0], e[1]) for e in R[1]).values()):
            cnt("graphs_with_parallel_edges")
        for name, a, b in (("nodes", I[0], R[0]), ("edges", I[1], R[1]), ("roots", I[2], R[2])):
            if a != b:
                if name == "edges":
                    det = "missing %s, extra %s" % (sorted(b - a)[:4], sorted(a - b)[:4])
                elif name == "nodes":
                    det = "differences %s" % [(k, a.get(k, "<absent>"), b.get(k, "<absent>")) for k in sorted(set(a) | set(b))
                                              if a.get(k, "<absent>") != b.get(k, "<absent>")][:4]
                else:
                    det = "composed %s, reference %s" % (a, b)
                viol("graph_%s_differ" % name, "composed graph vs. definition: %s" % det, wf, seed, subject=name)
        s1 = g.serialize()
        try:
            s2 = graphing.WorkflowGraph.deserialize(s1).serialize()
            cnt("round_trips")
            if json.dumps(s1, sort_keys=True) != json.dumps(s2, sort_keys=True):
                viol("graph_roundtrip_differs", "deserialize(serialize()) does not reproduce the graph", wf, seed, subject="roundtrip")
        except Exception as e:
            viol("graph_roundtrip_raised", "%s: %s" % (type(e).__name__, e), wf, seed)
        names = list(wf["tasks"])
        if len(names) <= job.get("perm_all_upto", 5):
            perms = list(itertools.permutations(names))
            cnt("definitions_with_all_permutations")
        else:
            perms = []
            for _ in range(job.get("perm_sample", 20)):
                p = names[:]
                rng.shuffle(p)
                perms.append(tuple(p))
        for perm in perms:
            if list(perm) == names:
                continue
            wf2 = {"version": 1.0, "tasks": {k: copy.deepcopy(wf["tasks"][k]) for k in perm}}
            g2 = composer.WorkflowComposer.compose(native_specs.WorkflowSpec(wf2))
            cnt("permutations")
            if impl_graph(g2) != I:
                viol("graph_depends_on_declaration_order", "declaration order %s composes a different graph than %s"
                     % (list(perm), names), wf, seed, subject="order")
                break
        if len(out["samples"]) < 1 and nontriv(wf, R):
            out["samples"].append(dict(definition=wf, reference_nodes=R[0], reference_edges=sorted(map(list, R[1])),
                                       composed_equal=(I == R)))
    return out


def jobs(tier, seed):
    n = scale(tier, 1100, 60000)
    kw = dict(perm_all_upto=scale(tier, 4, 5), perm_sample=scale(tier, 6, 20))
    return batches("graphs", n, scale(tier, 70, 1000), gseed=seed, nmax=8, name="shapes", **kw) + \
        batches("graphs", scale(tier, 120, 6000), scale(tier, 20, 300), gseed=seed + 1, nmax=12, name="large-shapes", **kw)


def reach(m):
    c = m["counters"]
    if c.get("definitions_accepted", 0) < 300 or c.get("graphs_with_parallel_edges", 0) < 20:
        return "accepted %s, with parallel edges %s" % (c.get("definitions_accepted"), c.get("graphs_with_parallel_edges"))
    return None
