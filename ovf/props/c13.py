"""C13 - retry: bounded attempts, no transition from a retried attempt (retry model in the ledger)."""
from ovf.props.common import batches, scale, ASSUME_SIM
from ovf.workloads import conduct, mon  # noqa: F401

LEVEL = "exploration"
TECHNIQUE = "runtime monitoring: retry model (own tally, independent condition evaluation) + state-diff assertions around every retried attempt"
RULE = ("generated definitions in which most tasks carry a retry policy (count 0-3 literal or expression, delay literal "
        "or expression, when absent/failed/completed/result-dependent, `retry` command) placed in sequences, branches, "
        "splits, loops and on with-items tasks, x hashed outcome sequences per attempt (p_fail 0.45) x seeded schedules "
        "with sibling branches completing in between, also with the workflow failed/pausing/canceling when the attempt "
        "reports; non-trivial = at least one retried attempt; distinct = (definition, history) digest")
ASSUMPTIONS = ASSUME_SIM + ["only upper bounds are asserted: the property states no obligation to retry"]

PR = dict(p_retry=0.7, p_retry_cmd=0.08, p_items=0.12, p_expr_count=0.3, p_join=0.25, p_loop_count_changes=0.6)


def nontrivial(run, m):
    led = mon(run, "ledger")
    return led is not None and led.enabled and led.stats["retried"] > 0


def jobs(tier, seed):
    js = batches("conduct", scale(tier, 260, 5000), scale(tier, 20, 100), gen="mix", p_loop=0.3, P=PR, gseed=seed,
                 scheds=2, lazy=[0, 50], p_fail=0.45, name="free")
    js += batches("conduct", scale(tier, 140, 3000), scale(tier, 20, 100), gen="mix", p_loop=0.3, P=PR, gseed=seed + 1,
                  scheds=2, lazy=[0, 50], p_fail=0.45, ctl=dict(req=0.08, max_req=3, crash=0.03), name="random-ctl")
    # a retried task that shares its staged entry with arriving branches (integer join / cycle) and has its own delay
    js += batches("conduct", scale(tier, 160, 3000), scale(tier, 20, 100), gen="dag", gseed=seed + 2, scheds=2, lazy=[0, 60],
                  p_fail=0.5, P=dict(PR, p_join=0.9, p_intjoin=0.9, p_intjoin_less=0.9, p_delay=0.6, p_retry=0.9, nmax=5,
                                     p_items=0.0), name="retry-at-shared-staged-entry")
    # one retried task executed several times: on several routes (split) and in several loop passes, the retry count lowered
    # between passes - anything shared between the executions of a task shows here
    js += batches("conduct", scale(tier, 80, 2000), scale(tier, 20, 100), gen="loop", gseed=seed + 4, scheds=2, lazy=[0, 50], p_fail=0.5,
                  P=dict(PR, p_retry=0.8, p_loop_count_changes=0.9, p_join=0.15, p_items=0.05, nmax=5), name="retried-task-in-loops-and-on-routes")
    js += batches("conduct", scale(tier, 60, 1500), scale(tier, 20, 100), gen="dag", gseed=seed + 5, scheds=2, lazy=[0, 50], p_fail=0.5,
                  P=dict(PR, p_retry=0.8, p_join=0.1, p_items=0.05, nmin=4, nmax=6), name="retried-task-on-several-routes")
    # branches that arrive at an integer join while it WAITS for its retry (its staged entry exists, so this is outside
    # the zone of finding F1): the re-offer must still carry the retry delay
    js += batches("conduct", 48, 12, gen="rwait", gseed=seed + 3, scheds=scale(tier, 6, 24), lazy=[60, 90, 30, 80, 95, 50], p_fail=0.0,
                  name="arrival-while-waiting-for-retry")
    return js


def reach(m):
    c = m["counters"]
    if c.get("ledger.retried", 0) < 50:
        return "only %s retried attempts" % c.get("ledger.retried")
    return None
