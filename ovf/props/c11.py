"""C11 - run-time expression errors are contained, recorded and fail the workflow."""
import copy
import random

from ovf import workloads
from ovf.props.common import batches, scale, ASSUME_SIM
from ovf.sim import explore
from ovf.sim.provider import Monitor, h64

LEVEL = "fault_enumeration"
TECHNIQUE = ("runtime monitoring under fault injection: (a) a failing expression placed at every expression-bearing "
             "position x failure kind x language x history point; (b) source-free failpoints - the k-th evaluator call "
             "of a healthy run raises the evaluator's own exception, for every k")
RULE = ("(a) templates: position in {input, vars, action, task input, with.items, with.concurrency, delay, retry.when, "
        "retry.count, retry.delay, when, publish, publish on a transition with several targets beside a fail command, output} x kind in {missing key, wrong type, unknown function, division "
        "by zero, undefined variable (assigned on another path only)} x {YAQL, Jinja; bare, two expressions embedded in "
        "text, inside a Jinja block statement, beside a Jinja raw block} x (input / vars also with the conductor persisted and restored before its first call) x point in {start, mid-run, after a "
        "join, loop iteration 2, after pause/resume, during rerun, while canceling, on the late answer of a pending action after the workflow was canceled, on the late first acknowledgement of a task handed out just before the cancel}; (b) failpoints: for generated definitions the healthy "
        "run's evaluator calls are counted and the run is repeated with the k-th call raising, for every k (sampled "
        "above a cap); asserted: no exception leaves an API call, an error entry records the failure (naming the task "
        "for task-level positions), the workflow ends failed (or stays canceled), nothing is offered afterwards; "
        "non-trivial = the injected failure was reached; distinct = (template id) resp. (definition, history, k) digest")
ASSUMPTIONS = ASSUME_SIM + ["failpoints are placed at evaluator level only (strings without delimiters are never evaluated)"]

MARK = "_mk"
POSITIONS = ["input", "vars", "action", "tinput", "items", "concurrency", "delay", "retry_when", "retry_count",
             "retry_delay", "when", "publish", "publish_multi", "output"]
KINDS = ["missing_key", "wrong_type", "unknown_fn", "div_zero", "undefined", "string_value"]
STRING_VALUE_POSITIONS = ("items", "concurrency", "delay", "retry_count", "retry_delay")
POINTS = ["start", "mid", "join", "loop2", "resume", "rerun", "canceling", "canceled_pending", "canceled_before_ack"]
# language x form: a bare expression, two expressions embedded in text, a Jinja block statement around the
# expression, a Jinja raw block beside it
LANGS = ["yaql", "jinja", "yaql_text", "jinja_text", "jinja_block", "jinja_raw"]


def bad_expr(kind, lang, boolean=False, loop=False):
    lang, _, form = lang.partition("_")
    e = _bad_expr(kind, lang, boolean, loop)
    if form == "text":
        other = "<% ctx(xs) %>" if lang == "yaql" else "{{ ctx('xs') }}"
        return "pre %s mid %s post" % ((e, other) if kind == "missing_key" else (other, e))
    if form == "block":
        return "{%% if ctx('xs') %%}%s{%% endif %%}" % e
    if form == "raw":
        return "{%% raw %%}{{ kept_literally }}{%% endraw %%} %s" % e
    return e


def _bad_expr(kind, lang, boolean=False, loop=False):
    if loop:
        body = "1 / (1 - ctx(i))" if lang == "yaql" else "1 / (1 - ctx('i'))"
        body = "(%s) + ctx(zero_mk)" % body if lang == "yaql" else "(%s) + ctx('zero_mk')" % body
        if boolean:
            body = "(%s) >= 0" % body
    else:
        y = lang == "yaql"
        body = {
            "missing_key": "ctx(d_mk).nokey" if y else "ctx('d_mk').nokey",
            "wrong_type": "ctx(s_mk) + 1" if y else "ctx('s_mk') + 1",
            "unknown_fn": "nosuchfn_mk(1)",
            "div_zero": "1 / ctx(zero_mk)" if y else "1 / ctx('zero_mk')",
            "undefined": "ctx(late_mk)" if y else "ctx('late_mk')",
            "string_value": "ctx(s_mk)" if y else "ctx('s_mk')",
        }[kind]
    return ("<%% %s %%>" % body) if lang == "yaql" else ("{{ %s }}" % body)


def template(position, kind, lang, point):
    """-> (wf, inputs, plan, target task) or None when the combination does not exist"""
    wf_level = position in ("input", "vars", "output")
    if wf_level and point != "start":
        return None
    form = lang.partition("_")[2]
    if form and (kind not in ("missing_key", "div_zero") or point not in ("start", "mid", "join")):
        return None
    flang, lang = lang, lang.partition("_")[0]
    loop = point == "loop2"
    if loop and position in ("action", "items", "input", "vars", "output", "publish_multi"):
        return None  # (publish_multi: the fail command of the first pass keeps the loop alive as clean-up work)
    if kind == "undefined" and (wf_level or loop):
        return None
    if loop and kind != "div_zero":
        return None
    if kind == "string_value" and position not in STRING_VALUE_POSITIONS:
        return None
    if point == "rerun" and position == "publish_multi":
        return None  # a default rerun after a fail command is the zone of finding F8 (the command is staged as a task)
    if point == "canceled_before_ack" and (position not in ("retry_count", "retry_delay") or form or kind == "undefined"):
        return None  # what is evaluated when the first acknowledgement of a task arrives
    if point == "canceled_pending" and (position not in ("when", "publish", "retry_when") or form):
        return None  # only what is evaluated when the late answer of a pending action arrives
    if point == "canceling" and position not in ("when", "publish", "publish_multi", "retry_when"):
        return None  # nothing is rendered or started once a cancel was requested
    bad = bad_expr(kind, flang, boolean=position in ("when", "retry_when"), loop=loop)
    ok = "<% succeeded() %>" if lang == "yaql" else "{{ succeeded() }}"
    xs = "<% ctx(xs) %>" if lang == "yaql" else "{{ ctx('xs') }}"
    wf = {"version": 1.0,
          "input": [{"xs": [1, 2]}, {"d_mk": {"a": 1}}, {"s_mk": "str"}, {"zero_mk": 0}],
          "vars": [{"i": 0}, {"r": "init"}],
          "output": [{"r": "<% ctx(r) %>"}],
          "tasks": {}}
    T = wf["tasks"]

    def task(**kw):
        d = {"action": "core.noop"}
        d.update(kw)
        return d

    X = dict(task())
    if position == "input":
        wf["input"].append({"p": bad})
    elif position == "vars":
        wf["vars"].append({"v": bad})
    elif position == "output":
        wf["output"].append({"o": bad})
    elif position == "action":
        X["action"] = bad
    elif position == "tinput":
        X["action"] = "core.echo"
        X["input"] = {"message": bad}
    elif position == "items":
        X["with"] = {"items": bad}
        X["action"] = "core.echo"
        X["input"] = {"message": "<% item() %>"}
    elif position == "concurrency":
        X["with"] = {"items": xs, "concurrency": bad}
        X["action"] = "core.echo"
        X["input"] = {"message": "<% item() %>"}
    elif position == "delay":
        X["delay"] = bad
    elif position == "retry_when":
        X["retry"] = {"count": 1, "when": bad}
    elif position == "retry_count":
        X["retry"] = {"count": bad}
    elif position == "retry_delay":
        X["retry"] = {"count": 1, "delay": bad}
    elif position == "when":
        X["next"] = [{"when": bad, "do": "after"}]
    elif position == "publish":
        X["next"] = [{"when": ok, "publish": [{"r": bad}], "do": "after"}]
    elif position == "publish_multi":
        # the failing publish sits on a transition with several targets, and a fail command with a clean-up task is
        # satisfied by the same completion: only `cleanup` may still be offered, never the targets of the failed transition
        X["next"] = [{"when": ok, "publish": [{"r": bad}], "do": ["after", "after2"]}, {"when": ok, "do": ["cleanup", "fail"]}]
    plan = "free"
    target = "x"
    if point == "start":
        T["x"] = X
    elif point == "mid":
        T["t0"] = task(next=[{"when": ok, "do": "x"}])
        T["x"] = X
    elif point == "join":
        T["t0"] = task(next=[{"when": ok, "do": ["a", "b"]}])
        T["a"] = task(next=[{"when": ok, "do": "x"}])
        T["b"] = task(next=[{"when": ok, "do": "x"}])
        X["join"] = "all"
        T["x"] = X
    elif point == "loop2":
        T["t0"] = task(next=[{"when": ok, "do": "x"}])
        lt = "<% succeeded() and ctx(i) < 2 %>" if lang == "yaql" else "{{ succeeded() and ctx('i') < 2 }}"
        inc = "<% ctx(i) + 1 %>" if lang == "yaql" else "{{ ctx('i') + 1 }}"
        X.setdefault("next", [])
        X["next"] = X["next"] + [{"when": lt, "publish": [{"i": inc}], "do": "x"}]
        T["x"] = X
    elif point == "resume":
        T["t0"] = task(next=[{"when": ok, "do": "x"}])
        T["x"] = X
        plan = "pause_resume"
    elif point == "canceling":
        T["t0"] = task(next=[{"when": ok, "do": "x"}])
        T["x"] = X
        plan = "cancel_inflight"
    elif point == "canceled_pending":
        # x is an inquiry: it reports pending (the workflow rests paused), the workflow is canceled, the answer arrives late
        T["t0"] = task(next=[{"when": ok, "do": "x"}])
        T["x"] = X
        plan = "pending_cancel"
    elif point == "canceled_before_ack":
        # x is handed out by a poll, the workflow is canceled before the provider acknowledges it (nothing is active, so it is
        # canceled at once), the acknowledgement arrives late
        T["t0"] = task(next=[{"when": ok, "do": "x"}])
        T["x"] = X
        plan = "cancel_before_ack"
    elif point == "rerun":
        T["t0"] = task(next=[{"when": ok, "do": "t1"}])
        T["t1"] = task(next=[{"when": ok, "do": "x"}])
        T["x"] = X
        plan = "rerun"
    if position in ("when", "publish", "publish_multi"):
        T["after"] = task()
    if position == "publish_multi":
        T["after2"] = task()
        T["cleanup"] = task()
    if kind == "undefined":
        # late_mk is published only on a transition that is not taken at run time.  Inspection merges
        # what every inbound transition of a join assigns, so it sees an assignment upstream.
        fl = "<% failed() %>" if lang == "yaql" else "{{ failed() }}"
        T["x"]["join"] = "all"
        preds = [k for k in T if k != "x" and any("x" in (tr.get("do") if isinstance(tr.get("do"), list) else [tr.get("do")])
                                                   for tr in T[k].get("next", []))]
        if not preds:
            T2 = {"pre": task(next=[{"when": ok, "do": "x"}])}
            T2.update(T)
            wf["tasks"] = T = T2
            preds = ["pre"]
        src = T[preds[0]]
        src["next"] = [{"when": fl, "publish": [{"late_mk": 1}], "do": "x"}] + src["next"]
    return wf, {}, plan, target


class Containment(Monitor):
    """what must follow a run-time expression failure"""
    name = "containment"

    def __init__(self, marker, target=None, task_level=True, never=()):
        self.marker = marker
        self.target = target
        self.task_level = task_level
        self.never = tuple(never)  # tasks that must not be offered at all once the failure was recorded

    def on_init(self, run):
        self.reached_step = None
        self.stats = dict(reached=0)

    def _hit(self, errors):
        if self.marker is None:
            return [e for e in errors if not e.get("message", "").startswith("Execution failed")]
        return [e for e in errors if self.marker in e.get("message", "")]

    def on_call(self, run, ev):
        if ev["exc"] is not None and (self.marker is None or self.marker in str(ev["exc"])) \
                and not (ev["op"] == "req" or ev["op"] == "rerun"):
            if self.reached_step is None:
                self.reached_step = run.step
                self.stats["reached"] = 1
            run.notes["escaped_marker"] = True
            return
        if self.reached_step is None and self._hit(ev["post"]["errors"]):
            self.reached_step = run.step
            self.stats["reached"] = 1
            run.notes["reached"] = True
            ents = self._hit(ev["post"]["errors"])
            if self.task_level and self.target and not any(e.get("task_id") == self.target for e in ents):
                run.viol("C11", "error_entry_unnamed", "the error entry for the failing expression does not name task %s: %r"
                         % (self.target, ents[0]), subject=self.target)

    def on_offer(self, run, ev, info, action, rec):
        if self.reached_step is not None and run.step > self.reached_step:
            stg = [x for x in ev["pre"]["state"]["staged"] if x["id"] == info["task"] and x["route"] == info["route"]]
            if stg and stg[0].get("run_on_fail") and ev["pre"]["status"] == "failed" and info["task"] not in self.never:
                return  # documented clean-up task listed beside a fail command (C04)
            if run.ctl["reruns"]:
                return
            run.viol("C11", "offer_after_expression_error", "task %s offered after the expression failure was recorded"
                     % info["task"], subject=info["task"])

    def on_end(self, run):
        if self.reached_step is None:
            return
        st = run.status()
        if run.ctl["reruns"]:
            return
        if not run.inflight and st not in ("failed", "canceled") and not run.notes.get("escaped"):
            run.viol("C11", "not_failed_after_expression_error", "an expression failed at run time but the workflow ended %s"
                     % st, subject=st)
        if not self._hit(run.c.errors) and not run.notes.get("escaped_marker"):
            run.viol("C11", "error_not_recorded", "no error entry records the failing expression", subject="errors")


def relabel(run):
    for v in run.violations:
        if v["kind"] == "exception_escaped":
            v["prop"] = "C11"


def drive(run, plan, pol):
    if plan == "free":
        explore.run_free(run, pol)
    elif plan == "pause_resume":
        run.request("running")
        run.poll()
        run.request("pausing")
        while run.inflight:
            run.complete(pol.pick(run))
        if run.status() == "paused":
            run.request("resuming")
        explore.run_free(run, pol, start=False)
    elif plan == "cancel_inflight":
        # the cancel request lands while the task whose completion evaluates the failing expression is in flight
        run.request("running")
        for _ in range(6):
            run.poll()
            if any(a["task"] == "x" for a in run.inflight) or not run.inflight:
                break
            run.complete(pol.pick(run))
        run.request("canceling")
        explore.run_free(run, pol, start=False)
    elif plan == "cancel_before_ack":
        run.request("running")
        run.poll()
        while run.inflight:
            run.complete(pol.pick(run))
            if not run.inflight:
                break
        run.poll(mid="canceling")  # the poll that hands out x; the request lands before its acknowledgement
        explore.run_free(run, pol, start=False)
    elif plan == "pending_cancel":
        run.request("running")
        for _ in range(6):
            run.poll()
            if any(a["task"] == "x" for a in run.inflight) or not run.inflight:
                break
            run.complete(pol.pick(run))
        ix = [i for i, a in enumerate(run.inflight) if a["task"] == "x"]
        if ix:
            run.park(ix[0], "pending")
            while run.inflight:
                run.complete(pol.pick(run))
            run.request("canceling")
            run.unpark(0)
        explore.run_free(run, pol, start=False)
    elif plan == "rerun":
        run.outcomes.force = lambda a: (("failed", None) if a["task"] == "t1" and not run.ctl["reruns"] else None)
        explore.run_free(run, pol)
        if run.status() == "failed" and not run.inflight:
            ev = run.rerun(None)
            if ev["exc"] is None:
                explore.run_free(run, pol, start=False)


def templates(job):
    out = dict(evaluations=0, nontrivial=set(), violations=[], samples=[], counters={}, sets={})
    C = out["counters"]
    combos = [(p, k, l, pt) for p in POSITIONS for k in KINDS for l in LANGS for pt in POINTS]
    only = job.get("only")
    for idx in ([only[0]] if only else range(job["lo"], job["hi"])):
        if idx >= len(combos):
            break
        p, k, l, pt = combos[idx]
        t = template(p, k, l, pt)
        if t is None:
            C["combinations_not_applicable"] = C.get("combinations_not_applicable", 0) + 1
            continue
        wf, inputs, plan, target = t
        if not workloads.inspect_ok(wf):
            C["templates_rejected_by_inspection"] = C.get("templates_rejected_by_inspection", 0) + 1
            out["sets"].setdefault("rejected", set()).add("%s/%s/%s/%s" % (p, k, l, pt))
            continue
        # workflow-level positions also with the conductor persisted and restored before its first call
        for lazy in ((0, 50, "precrash") if p in ("input", "vars") else (0, 50)):
            precrash = lazy == "precrash"
            lazy = 0 if precrash else lazy
            cm = Containment(None if k == "string_value" else MARK, target=target, task_level=p not in ("input", "vars", "output"),
                             never=("after", "after2") if p == "publish_multi" else ())
            ms = [m for m in workloads.monitors() if m.name != "ledger"] + [cm]
            run = explore.make_run(dict(wf=wf, inputs=inputs, oseed=1, p_fail=0.0), ms, model=None,
                                   label="%s/%s/%s/%s" % (p, k, l, pt), precrash=precrash)
            if precrash:
                C["templates_persisted_before_first_call"] = C.get("templates_persisted_before_first_call", 0) + 1
            drive(run, plan, explore.Policy(pseed=idx, lazy_pct=lazy))
            run.finish()
            relabel(run)
            out["evaluations"] += 1
            C["templates_run"] = C.get("templates_run", 0) + 1
            if cm.reached_step is None and p in ("input", "vars") and k != "string_value":
                # the workflow's own input / vars cannot be rendered: whatever the history, this is known from the first call on
                run.viol("C11", "error_not_recorded", "the %s expression of the definition cannot be evaluated, but no error entry "
                         "records it (status %s%s)" % (p, run.status(), ", conductor persisted and restored before its first call"
                                                       if precrash else ""), subject="errors")
            if cm.reached_step is not None:
                C["injection_reached"] = C.get("injection_reached", 0) + 1
                out["sets"].setdefault("positions_reached", set()).add(p)
                out["sets"].setdefault("points_reached", set()).add(pt)
            else:
                out["sets"].setdefault("not_reached", set()).add("%s/%s/%s/%s" % (p, k, l, pt))
            job2 = dict(job, name="templates")
            workloads.collect(out, job2, run, None, (idx, 0), lambda r, m: cm.reached_step is not None,
                              extra=dict(template=dict(position=p, kind=k, lang=l, point=pt),
                                         cause_hint=None))
            for v in out["violations"]:
                if v.get("template") == dict(position=p, kind=k, lang=l, point=pt) and v["job"].get("fn") == "replay_case":
                    v["job"] = dict(fn="templates", mod=job["mod"], prop="C11", only=[idx], lo=idx, hi=idx + 1)
                    if p.startswith("retry_"):
                        v["cause"] = sorted(set((v.get("cause") or []) + ["retry_expression_unguarded"]))
    return out


# ------------------------------------------------------------------------------- failpoints
class Failpoint(object):
    inst = None

    def __init__(self):
        self.n = 0
        self.target = None
        self.depth = 0

    @classmethod
    def install(cls):
        if cls.inst is not None:
            return cls.inst
        from orquesta.expressions import jinja as jmod
        from orquesta.expressions import yql as ymod
        self = cls()
        for klass, exc in ((ymod.YAQLEvaluator, ymod.YaqlEvaluationException),
                           (jmod.JinjaEvaluator, jmod.JinjaEvaluationException)):
            orig = klass.__dict__["evaluate"].__func__

            def make(orig, exc):
                def evaluate(kls, text, data=None):
                    if self.depth == 0:
                        self.n += 1
                        if self.target is not None and self.n == self.target:
                            raise exc("injected_fp_mk failure while evaluating %r" % text[:60])
                    self.depth += 1
                    try:
                        return orig(kls, text, data)
                    finally:
                        self.depth -= 1
                return classmethod(evaluate)

            setattr(klass, "evaluate", make(orig, exc))
        cls.inst = self
        return self


def failpoints(job):
    out = dict(evaluations=0, nontrivial=set(), violations=[], samples=[], counters={}, sets={})
    C = out["counters"]
    fp = Failpoint.install()
    only = job.get("only")
    for seed in ([only[0]] if only else range(job["lo"], job["hi"])):
        m, inputs = workloads.gen_case(job, seed)
        wf = m.render()
        if not workloads.inspect_ok(wf):
            C["definitions_rejected_by_inspection"] = C.get("definitions_rejected_by_inspection", 0) + 1
            continue
        case = dict(wf=wf, inputs=inputs, oseed=h64(job.get("gseed", 0), seed, "o") % 100000, p_fail=0.1)
        pol = explore.Policy(pseed=h64(job.get("gseed", 0), seed, "p"), lazy_pct=[0, 40][seed % 2])
        fp.n, fp.target = 0, None
        healthy = explore.make_run(case, [], model=m)
        explore.run_free(healthy, pol)
        total = fp.n
        C["healthy_runs"] = C.get("healthy_runs", 0) + 1
        C["evaluator_calls_in_healthy_runs"] = C.get("evaluator_calls_in_healthy_runs", 0) + total
        ks = list(range(1, total + 1))
        cap = job.get("cap", 40)
        if len(ks) > cap:
            rng = random.Random(h64(seed, "k"))
            ks = sorted(rng.sample(ks, cap))
        else:
            C["runs_with_every_k"] = C.get("runs_with_every_k", 0) + 1
        for k in ks:
            if only and len(only) > 1 and k != only[1]:
                continue
            fp.n, fp.target = 0, k
            cm = Containment("injected_fp_mk", target=None, task_level=False)
            ms = [x for x in workloads.monitors() if x.name != "ledger"] + [cm]
            try:
                run = explore.make_run(case, ms, model=None, label="failpoint k=%d" % k)
            except Exception as e:  # the constructor touches no expression; anything here is the harness
                fp.target = None
                raise
            explore.run_free(run, pol)
            fp.target = None
            run.finish()
            relabel(run)
            out["evaluations"] += 1
            C["failpoints_armed"] = C.get("failpoints_armed", 0) + 1
            if cm.reached_step is not None:
                C["injection_reached"] = C.get("injection_reached", 0) + 1
            workloads.collect(out, dict(job, name="failpoints"), run, None, (seed, k), lambda r, mm: cm.reached_step is not None,
                              extra=dict(failpoint=k))
            for v in out["violations"]:
                if v.get("failpoint") == k and v["job"].get("fn") == "replay_case":
                    v["job"] = dict({x: job[x] for x in job if x not in ("lo", "hi")}, fn="failpoints", only=[seed, k],
                                    lo=seed, hi=seed + 1)
    fp.target = None
    return out


def nontrivial(run, m):
    return True


def jobs(tier, seed):
    ncomb = len(POSITIONS) * len(KINDS) * len(LANGS) * len(POINTS)
    js = batches("templates", ncomb, scale(tier, 60, 40), name="templates")
    if tier == "quick":
        # a rotating third of the template space, plus (always) every template of the kinds / points whose
        # containment depends on a guard other than the evaluator's own exception type
        js = [j for i, j in enumerate(js) if i % 3 == seed % 3] + [j for i, j in enumerate(js) if i % 3 != seed % 3][:2]
        combos = [(p, k, l, pt) for p in POSITIONS for k in KINDS for l in LANGS for pt in POINTS]
        always = [i for i, c in enumerate(combos) if c[1] == "string_value" or c[3] in ("canceling", "canceled_pending", "canceled_before_ack") or c[0].startswith("retry_")
                  or ("_" in c[2] and c[3] == "mid") or (c[0] == "publish_multi" and c[3] in ("mid", "join"))]
        js += [dict(fn="templates", lo=i, hi=i + 1, name="templates") for i in always]
    P = dict(p_items=0.2, p_retry=0.25, p_ainput=0.5, p_pub=0.8, p_expr_count=0.5, p_expr_conc=0.5, p_delay=0.1, nmax=6)
    js += batches("failpoints", scale(tier, 60, 1500), scale(tier, 4, 30), gen="mix", p_loop=0.25, P=P, gseed=seed,
                  cap=scale(tier, 25, 80), name="failpoints")
    return js


def reach(m):
    c = m["counters"]
    if c.get("injection_reached", 0) < 100:
        return "only %s injections reached" % c.get("injection_reached")
    return None
