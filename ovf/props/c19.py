"""C19 - conducting is deterministic and asking for next tasks is a pure query."""
import hashlib
import json
import os
import random
import subprocess
import sys

from ovf import env, workloads
from ovf.props.common import batches, scale, ASSUME_SIM
from ovf.workloads import conduct, corpus, mon  # noqa: F401
from ovf.sim import explore
from ovf.sim.provider import h64

LEVEL = "exploration"
TECHNIQUE = ("runtime monitoring: relational cross-process twin - the same scenario executed in subprocesses with different "
             "PYTHONHASHSEED values, per-step digests compared byte-wise; every poll issued twice with answers and "
             "persisted state compared")
RULE = ("(a) scenarios = generated definitions (valid ones with a seeded history incl. pause/cancel/crash/rerun; and "
        "single-fault / wild mutants whose inspection report is non-empty) executed by one subprocess per hash seed in "
        "{0, 1, 2, 3, seed-derived...}; per scenario the digests of inspect(), compose().serialize(), and after every "
        "step the offered tasks (in order), the full serialize(), errors and output are compared across processes "
        "(dict key order canonicalised, list order significant); (b) double poll: in generated conducting workloads every "
        "get_next_tasks is issued twice without an intervening event; answers and persisted state must be equal; "
        "non-trivial = scenario with >= 3 steps or a non-empty inspection report, compared across >= 3 hash seeds; "
        "distinct = scenario digest")
ASSUMPTIONS = ASSUME_SIM + ["a handful of hash seeds, not all 2^32"]


def nontrivial(run, m):
    dp = mon(run, "doublepoll")
    return dp is not None and dp.stats["nonempty"] > 0


def canon_list_sensitive(x):
    return json.dumps(x, sort_keys=True, default=str)


def dg(x):
    return hashlib.sha256(canon_list_sensitive(x).encode()).hexdigest()[:16]


def scenario_digests(job, seed):
    """executed in the child: everything observable for one scenario"""
    import copy
    from orquesta.composers import native as composer
    from orquesta.specs import native as native_specs
    from ovf.props import c15
    m, inputs = workloads.gen_case(job, seed)
    wf = m.render()
    rng = random.Random(h64(job.get("gseed", 0), seed, "c19"))
    kind = "valid"
    r = rng.random()
    if r < 0.35:
        # a definition with faults: the inspection report is what is compared
        muts = c15.mutants(wf, rng, 6)
        if muts:
            fault, _, wf = muts[rng.randrange(len(muts))]
            # a second fault of the same kind elsewhere makes the report longer (ordering matters)
            more = c15.mutants(wf, rng, 4)
            if more and rng.random() < 0.7:
                wf = more[0][2]
            kind = "mutant"
            if rng.random() < 0.5:
                # several different expressions referencing the same unassigned variable inside one value
                tn = rng.choice(c15.reachable(wf) or list(wf["tasks"]))
                lang = rng.choice(["yaql", "jinja"])
                refs = [c15.wrap(lang, f % "ghost_var") for f in c15.FORMS[lang]]
                exprs = refs + [c15.wrap(lang, (c15.FORMS[lang][0] % "ghost_var") + " + 1")]
                rng.shuffle(exprs)
                if rng.random() < 0.5:
                    wf["tasks"][tn]["input"] = {"p%d" % i: e for i, e in enumerate(exprs[:3])}
                else:
                    wf["tasks"][tn]["input"] = {"message": exprs[:3]}
                kind = "mutant-multiref"
    elif r < 0.5:
        for _ in range(rng.randint(1, 3)):
            c15.wild_edit(wf, rng)
        kind = "wild"
    elif r < 0.65:
        # two transitions into the same task that publish the same variable names in different orders, and a
        # context error inside that task: anything order-sensitive in the inspector's worklist shows here
        names = list(wf["tasks"])
        if len(names) >= 2:
            src, dst = names[0], rng.choice(names[1:])
            lang = rng.choice(["yaql", "jinja"])
            pub = ["pa", "pb", "pc", "pd", "pe"][: rng.randint(2, 5)]
            p1 = [{k: 1} for k in pub]
            p2 = [{k: 2} for k in rng.sample(pub, len(pub))]
            ok = "<% succeeded() %>" if lang == "yaql" else "{{ succeeded() }}"
            fl = "<% failed() %>" if lang == "yaql" else "{{ failed() }}"
            wf["tasks"][src].setdefault("next", [])
            wf["tasks"][src]["next"] += [{"when": ok, "publish": p1, "do": [dst]}, {"when": fl, "publish": p2, "do": [dst]}]
            wf["tasks"][dst]["input"] = {"message": c15.wrap(lang, c15.FORMS[lang][0] % "ghost_var")}
            if "with" in wf["tasks"][dst]:
                wf["tasks"][dst].pop("with")
            wf["tasks"][dst]["action"] = "core.echo"
            kind = "mutant-twinpublish"
    elif r < 0.77:
        # one string with several DIFFERENT expressions that all fail at run time (in an action input, a publish and
        # the output): which failure is recorded must not depend on the hash seed
        names = list(wf["tasks"])
        lang = rng.choice(["yaql", "jinja"])
        e = (lambda k: "<%% ctx(d_c19).%s %%>" % k) if lang == "yaql" else (lambda k: "{{ ctx('d_c19').%s }}" % k)
        keys = ["kb", "ka", "kd", "kc", "ke"][: rng.randint(2, 5)]
        text = " and ".join(e(k) for k in keys)
        wf.setdefault("vars", []).append({"d_c19": {"present": 1}})
        tn = rng.choice(names)
        where = rng.choice(["input", "publish", "output"])
        if where == "input":
            wf["tasks"][tn].pop("with", None)
            wf["tasks"][tn]["action"] = "core.echo"
            wf["tasks"][tn]["input"] = {"message": text}
        elif where == "publish":
            wf["tasks"][tn].setdefault("next", []).insert(0, {"publish": [{"pm_c19": text}], "do": "noop"})
        else:
            wf.setdefault("output", []).append({"om_c19": text})
        kind = "runtime-multi-error"
    out = dict(kind=kind, steps=[])
    try:
        spec = native_specs.WorkflowSpec(copy.deepcopy(wf))
        rep = spec.inspect()
    except Exception as e:
        out["inspect"] = "load raised %s" % type(e).__name__
        return out, wf
    out["inspect"] = dg(rep)
    out["inspect_nonempty"] = bool(rep)
    out["inspect_text"] = canon_list_sensitive(rep)[:3000] if rep else ""
    try:
        g = composer.WorkflowComposer.compose(spec)
        out["graph"] = dg(g.serialize())
    except Exception as e:
        out["graph"] = "compose raised %s" % type(e).__name__
        return out, wf
    if rep:
        return out, wf
    run = explore.make_run(dict(wf=wf, inputs=inputs, oseed=seed, p_fail=0.2), [], model=None)
    run.record_full = True
    inj = workloads.Injector(h64(seed, "inj"), dict(req=0.06, crash=0.05, early_render=0.3, max_req=3))
    pol = explore.Policy(pseed=h64(seed, "p"), lazy_pct=[0, 50][seed % 2])
    explore.run_free(run, pol, hook=inj, max_steps=120)
    if run.status() == "failed" and not run.inflight and seed % 2 == 0:
        recs = run.last["state"]["sequence"]
        failed = sorted(set((r["id"], r["route"]) for r in recs if r.get("status") == "failed" and r["id"] in wf["tasks"]))
        others = sorted(set((r["id"], r["route"]) for r in recs if r.get("status") == "succeeded" and r["id"] in wf["tasks"]))
        if seed % 4 == 0 and len(failed) + len(others) >= 2:
            # several tasks named in one request (their order in the request must not matter to what is persisted)
            reqs = [(t, r, False) for t, r in (failed + others)[:4]]
            run.rerun(reqs)
        else:
            run.rerun(None)
        explore.run_free(run, pol, start=False, max_steps=60)
    out["steps"] = [dg([o["op"], o["status"], o.get("extra"), o["full"]]) for o in run.oplog]
    out["final"] = dg([run.status(), run.c.errors, run.c.get_workflow_output()])
    return out, wf


def child_main(jobfile, outfile):
    env.setup_path()
    with open(jobfile) as f:
        job = json.load(f)
    res = {}
    for seed in range(job["lo"], job["hi"]):
        try:
            d, wf = scenario_digests(job, seed)
        except Exception as e:
            d, wf = dict(kind="harness-error", error="%s: %s" % (type(e).__name__, e)), None
        d["wf"] = wf
        res[str(seed)] = d
    with open(outfile, "w") as f:
        json.dump(res, f, default=str)


def cross_process(job):
    out = dict(evaluations=0, nontrivial=set(), violations=[], samples=[], counters={}, sets={})
    C = out["counters"]
    env.ensure_dirs()
    hseeds = [0, 1, 2, 3] + [1000 + (h64(job.get("gseed", 0), job["lo"], i) % 100000) for i in range(job.get("extra_seeds", 1))]
    results = {}
    tag = "%d_%d" % (os.getpid(), job["lo"])
    jf = os.path.join(env.WORK, "c19_job_%s.json" % tag)
    with open(jf, "w") as f:
        json.dump(job, f)
    procs = []
    for hs in hseeds:
        of = os.path.join(env.WORK, "c19_out_%s_%d.json" % (tag, hs))
        e = dict(os.environ, PYTHONHASHSEED=str(hs))
        procs.append((hs, of, subprocess.Popen([sys.executable, "-B", "-m", "ovf.props.c19", "--child", jf, of], cwd=env.VERIF,
                                               env=e, stdout=subprocess.PIPE, stderr=subprocess.PIPE)))
    for hs, of, p in procs:
        try:
            _, err = p.communicate(timeout=job.get("timeout", 900))
        except subprocess.TimeoutExpired:
            p.kill()
            raise RuntimeError("child for hash seed %s timed out" % hs)
        if p.returncode != 0:
            raise RuntimeError("child for hash seed %s failed: %s" % (hs, err.decode(errors="replace")[-800:]))
        with open(of) as f:
            results[hs] = json.load(f)
        os.remove(of)
    os.remove(jf)
    C["processes"] = len(hseeds)
    out["sets"]["hash_seeds"] = set(hseeds)
    ref = results[hseeds[0]]
    for seed in sorted(ref, key=int):
        a = ref[seed]
        if a.get("kind") == "harness-error":
            raise RuntimeError("scenario %s: %s" % (seed, a.get("error")))
        out["evaluations"] += 1
        C["scenarios." + a["kind"]] = C.get("scenarios." + a["kind"], 0) + 1
        C["steps_compared"] = C.get("steps_compared", 0) + len(a.get("steps", []))
        if a.get("inspect_nonempty"):
            C["nonempty_reports_compared"] = C.get("nonempty_reports_compared", 0) + 1
        if len(a.get("steps", [])) >= 3 or a.get("inspect_nonempty"):
            out["nontrivial"].add(workloads.digest(a.get("wf")))
        for hs in hseeds[1:]:
            b = results[hs][seed]
            diff = None
            for k in ("inspect", "graph", "final"):
                if a.get(k) != b.get(k):
                    diff = k
                    break
            if diff is None and a.get("steps") != b.get("steps"):
                i = next((i for i, (x, y) in enumerate(zip(a["steps"], b["steps"])) if x != y), min(len(a["steps"]), len(b["steps"])))
                diff = "step %d" % i
            if diff:
                det = "hash seeds %s and %s disagree on %s" % (hseeds[0], hs, diff)
                if diff == "inspect":
                    det += ": %s vs %s" % (a.get("inspect_text", "")[:250], b.get("inspect_text", "")[:250])
                    ta, tb = a.get("inspect_text", ""), b.get("inspect_text", "")
                cause = None
                if diff == "inspect":
                    try:
                        ra, rb = json.loads(ta), json.loads(tb)
                        if _same_entries(ra, rb):
                            cause = ["report_entries_equal_order_differs"]
                    except ValueError:
                        pass
                out["violations"].append(dict(prop="C19", kind="differs_across_hash_seeds_" + diff.split()[0], subject=diff.split()[0],
                                              cause=cause, detail=det, wf=a.get("wf"), workload=job.get("name"),
                                              job=dict({x: job[x] for x in job if x not in ("lo", "hi")}, lo=int(seed), hi=int(seed) + 1)))
                break
    if ref and len(out["samples"]) < 1:
        s0 = sorted(ref, key=int)[0]
        out["samples"].append(dict(scenario=ref[s0].get("wf"), kind=ref[s0]["kind"], hash_seeds=hseeds,
                                   digests={str(h): dict(inspect=results[h][s0].get("inspect"), graph=results[h][s0].get("graph"),
                                                         steps=results[h][s0].get("steps", [])[:5]) for h in hseeds}))
    return out


def _same_entries(ra, rb):
    """do two inspection reports contain the same entries per category (as multisets)?"""
    if set(ra) != set(rb):
        return False
    for k in ra:
        if sorted(canon_list_sensitive(x) for x in ra[k]) != sorted(canon_list_sensitive(x) for x in rb[k]):
            return False
    return True


def jobs(tier, seed):
    P = dict(p_intjoin=0.3, p_items=0.2, p_retry=0.2, nmax=6)
    js = batches("cross_process", scale(tier, 96, 1600), scale(tier, 6, 40), gen="mix", p_loop=0.25, P=P, gseed=seed,
                 extra_seeds=scale(tier, 1, 3), name="cross-process")
    js += batches("conduct", scale(tier, 160, 4000), scale(tier, 20, 100), gen="mix", p_loop=0.3, gseed=seed + 1, P=P, scheds=2,
                  lazy=[0, 50], ctl=dict(req=0.06, crash=0.04, max_req=3), name="double-poll")
    # the repository's own fixture definitions under generated outcomes, schedules and requests
    js += [dict(fn="corpus", parts=4, part=i, runs=scale(tier, 4, 40), gseed=seed, ctl=dict(req=0.06, crash=0.04, max_req=3), name="corpus") for i in range(4)]
    return js


def reach(m):
    c = m["counters"]
    if c.get("steps_compared", 0) < 300 or c.get("doublepoll.nonempty", 0) < 300 or c.get("nonempty_reports_compared", 0) < 5:
        return "steps compared %s, non-empty double polls %s, non-empty reports %s" % (
            c.get("steps_compared"), c.get("doublepoll.nonempty"), c.get("nonempty_reports_compared"))
    return None


if __name__ == "__main__":
    if len(sys.argv) == 4 and sys.argv[1] == "--child":
        child_main(sys.argv[2], sys.argv[3])
