"""C09 - pause and resume are transparent (pause twin)."""
from ovf import workloads
from ovf.props.common import batches, family_slices, scale, ASSUME_SIM, positions
from ovf.props.sweeps import ctl_sweep  # noqa: F401
from ovf.sim import explore
from ovf.sim.provider import canon, h64

LEVEL = "exploration"
TECHNIQUE = "runtime monitoring: relational pause-twin - the same history with and without the pause/resume requests (polls withheld identically) executed in lock-step and compared; online assertions while pausing/paused"
RULE = ("base histories = generated definitions x hashed outcomes x deterministic schedules; at EVERY position of every "
        "base history a pause (requested as `pausing` or `paused`) is inserted, the actions in flight report without "
        "intervening polls, the workflow is resumed (as `resuming` or `running`) once at rest and runs on; the twin "
        "executes the same steps minus the two requests; compared: every later offer, final status, executed "
        "multiset, errors (as multiset) and output; a second sweep inserts the pause at every position and keeps "
        "polling after every report while pausing/paused; online: no offer while pausing/paused, `paused` iff nothing in "
        "flight; additionally the publish-shape family (1024 definitions: edge sets x transition grouping x publish pattern over 4 tasks) and the decision-shape family (exhaustive in the thorough tier, a rotating slice in the quick tier): every acyclic edge set over 4 tasks with a join x condition succeeded/failed per edge x outcome per task (4128 definitions); non-trivial = pause accepted while >= 1 action in flight or >= 1 task staged; distinct = (definition, "
        "history, position, request form) digest")
ASSUMPTIONS = ASSUME_SIM + ["the unpaused twin withholds the same polls as the paused run (a freely polling twin differs legitimately under fail-fast)"]


def nontrivial(run, m):
    return bool(run.notes.get("pause_nontrivial"))


def finish_summary(run):
    errs = sorted(canon({k: v for k, v in e.items()}) for e in run.c.errors)
    return dict(status=run.status(), executed=run.executed(), errors=errs, output=run.c.get_workflow_output())


def offers_after(run, mark):
    return [[o["task"], o["item"], o["attempt"], o.get("delay"), canon(o.get("input")), canon(o.get("ctx"))]
            for o in run.offers[mark:]]


def one_twin(job, case, m, base, pos, form, out, ident, pol):
    req = ["pausing", "paused"][form % 2]
    res = ["resuming", "running"][(form // 2) % 2]
    P = explore.make_run(case, workloads.monitors(job.get("flags")), model=m, label="paused")
    explore.play_script(P, base[:pos])
    ev = P.request(req)
    C = out["counters"]
    if ev["exc"] is not None:
        C["pause_rejected"] = C.get("pause_rejected", 0) + 1
        return
    C["pause_accepted"] = C.get("pause_accepted", 0) + 1
    if P.inflight or [s for s in P.last["state"]["staged"] if s.get("ready")]:
        P.notes["pause_nontrivial"] = True
    if P.inflight:
        C["pause_with_inflight"] = C.get("pause_with_inflight", 0) + 1
    U = explore.make_run(case, [], model=m, label="unpaused")
    explore.play_script(U, base[:pos])
    # drain: the in-flight actions report in the base history's order, no polls in between
    drain = []
    pending = [(a["task"], a["route"], a["item"]) for a in P.inflight]
    for op in base[pos:]:
        if op[0] == "done" and (op[1], op[2], op[3]) in pending:
            pending.remove((op[1], op[2], op[3]))
            drain.append(op)
    markP, markU = len(P.offers), len(U.offers)
    for op in drain:
        P.play(op)
        U.play(op)
    while P.inflight:  # anything the base history did not complete
        i = pol.pick(P)
        a = P.inflight[i]
        P.complete(i)
        j = U.find_inflight(a["task"], a["route"], a["item"])
        if j is not None:
            U.complete(j)
    stP = P.status()
    if stP == "paused":
        P.request(res)
        C["resumed"] = C.get("resumed", 0) + 1
        if P.status() in ("succeeded",):
            C["completed_by_resume"] = C.get("completed_by_resume", 0) + 1
    elif stP == "pausing":
        P.viol("C09", "not_paused_at_rest", "all in-flight actions reported but the workflow still reports pausing", subject="pausing")
    explore.run_free(P, pol, start=False)
    explore.run_free(U, pol, start=False)
    P.finish()
    a, b = finish_summary(P), finish_summary(U)
    if a != b:
        k = [x for x in ("status", "executed", "errors", "output") if a[x] != b[x]][0]
        P.viol("C09", "pause_changed_" + k, "pause (%s) after step %d and resume (%s): %s = %s, without the pause %s"
               % (req, pos, res, k, canon(a[k])[:300], canon(b[k])[:300]), subject=k)
    else:
        oa, ob = offers_after(P, markP), offers_after(U, markU)
        if oa != ob:
            P.viol("C09", "pause_changed_offers", "offers after the pause differ from the unpaused twin: %s vs %s"
                   % (canon(oa)[:300], canon(ob)[:300]), subject="offers")
    out["evaluations"] += 1
    workloads.collect(out, job, P, m, ident, nontrivial, extra=dict(insert=dict(pos=pos, req=req, resume=res),
                                                                  unpaused_script=U.script))
    for v in out["violations"]:
        if v["prop"] == "C09" and v.get("job", {}).get("fn") == "replay_case" and v.get("insert", {}).get("pos") == pos \
                and "twin" not in v["job"]:
            v["job"] = dict(fn="twin_case", mod=job["mod"], prop="C09", name=job.get("name"), twin=True,
                            case=dict(workloads.export_case(P, m), base=base, pos=pos, form=form, pseed=pol.pseed))


def twin_case(job):
    from ovf.gen import defs
    out = dict(evaluations=0, nontrivial=set(), violations=[], samples=[], counters={}, sets={})
    case = job["case"]
    m = defs.Model.from_json(case["model"]) if case.get("model") else None
    one_twin(job, case, m, case["base"], case["pos"], case["form"], out, (0, 0), explore.Policy(pseed=case["pseed"]))
    return out


def pause_twin(job):
    out = dict(evaluations=0, nontrivial=set(), violations=[], samples=[], counters={}, sets={})
    C = out["counters"]
    for seed in range(job["lo"], job["hi"]):
        m, inputs = workloads.gen_case(job, seed)
        wf = m.render()
        if not workloads.inspect_ok(wf):
            C["definitions_rejected_by_inspection"] = C.get("definitions_rejected_by_inspection", 0) + 1
            continue
        case = dict(wf=wf, inputs=inputs, oseed=h64(job.get("gseed", 0), seed, "o") % 100000, p_fail=job.get("p_fail", 0.15))
        pol = explore.Policy(pseed=h64(job.get("gseed", 0), seed, "p"), lazy_pct=[0, 40][seed % 2], render=True)
        b = explore.make_run(case, [], model=m)
        explore.run_free(b, explore.Policy(pseed=pol.pseed, lazy_pct=pol.lazy_pct, render=False))
        base = b.script
        C["base_histories"] = C.get("base_histories", 0) + 1
        k = 0
        for pos in positions(base):
            for form in range(4):
                k += 1
                if h64(seed, pos, form) % job.get("thin", 2):
                    continue
                one_twin(job, case, m, base, pos, form, out, (seed, k), pol)
                C["insertion_points"] = C.get("insertion_points", 0) + 1
    return out


def jobs(tier, seed):
    P = dict(p_intjoin=0.3, p_items=0.2, p_retry=0.15, p_fail_cmd=0.15, nmax=6)
    js = batches("pause_twin", scale(tier, 64, 2500), scale(tier, 4, 40), gen="mix", p_loop=0.25, P=P, gseed=seed,
                 thin=scale(tier, 3, 1), name="pause-twin")
    # the twin withholds polls while pausing; this sweep polls after every report while pausing / paused
    js += batches("ctl_sweep", scale(tier, 32, 800), scale(tier, 2, 20), gen="mix", p_loop=0.25, P=P, gseed=seed + 1,
                  modes=["pause"], name="pause-sweep-with-polls")
    # decision-shape family (exhaustive in the thorough tier, a rotating slice in the quick tier): every acyclic edge set over 4 tasks with a join x condition succeeded/failed per edge x outcome per task (4128 definitions)
    js += family_slices("pause_twin", 1024, 32, tier, seed, parts=2, gen="shape", thin=scale(tier, 3, 1), p_fail=0.0, name="publish-shapes-pause-twin")
    js += family_slices("pause_twin", 4128, 48, tier, seed, gen="cshape", thin=scale(tier, 3, 1), p_fail=0.0, name="decision-shapes-pause-twin")
    return js


def reach(m):
    c = m["counters"]
    if c.get("pause_with_inflight", 0) < 50 or c.get("resumed", 0) < 50:
        return "pauses with actions in flight %s, resumes %s" % (c.get("pause_with_inflight"), c.get("resumed"))
    return None
