"""C04 request sweep: every status request on a clone of every visited state"""
import copy

from ovf import workloads
from ovf.sim import explore
from ovf.sim.provider import h64, canon, is_rejection

from orquesta import conducting, statuses


def clone(c):
    """alias-preserving clone of a live conductor: one deepcopy of the mutable state (so objects shared
    between the lists stay shared), spec and graph are shared (read-only)"""
    ws = c.workflow_state
    blob = copy.deepcopy(dict(contexts=ws.contexts, routes=ws.routes, sequence=ws.sequence, staged=ws.staged,
                              tasks=ws.tasks, reruns=ws.reruns, errors=c.errors, log=c.log, out=c._outputs))
    st = conducting.WorkflowState()
    st.contexts, st.routes, st.sequence, st.staged = blob["contexts"], blob["routes"], blob["sequence"], blob["staged"]
    st.tasks, st.reruns, st.status = blob["tasks"], blob["reruns"], ws.status
    c2 = conducting.WorkflowConductor(c.spec)
    c2.restore(c.graph, log=blob["log"], errors=blob["errors"], state=st, inputs=c.get_workflow_input(),
               outputs=blob["out"], context=c.get_workflow_parent_context())
    return c2


def snap(c):
    return dict(status=c.get_workflow_status(), state=c.workflow_state.serialize(), errors=copy.deepcopy(c.errors),
                output=c.get_workflow_output())


def request_sweep(job):
    out = dict(evaluations=0, nontrivial=set(), violations=[], samples=[], counters={}, sets={})
    C = out["counters"]

    def cnt(k, n=1):
        C[k] = C.get(k, 0) + n

    only = job.get("only")
    seeds = [only[0]] if only else range(job["lo"], job["hi"])
    for seed in seeds:
        m, inputs = workloads.gen_case(job, seed)
        wf = m.render()
        if not workloads.inspect_ok(wf):
            cnt("definitions_rejected_by_inspection")
            continue
        case = dict(wf=wf, inputs=inputs, oseed=h64(job.get("gseed", 0), seed, "o") % 100000, p_fail=0.25)
        # every other history: actions acknowledged with mixed statuses (running / scheduled / requested / delayed), so
        # that several executions of one task are active with different statuses when the request is tried
        mixed = job.get("ack_chain") == "mixed" or (job.get("ack_chain") is None and seed % 2 == 1)
        run = explore.make_run(case, [], model=m, ack_chain="mixed" if mixed else False)
        if mixed:
            cnt("histories_with_mixed_acks")
        seen_states = set()
        viols = []

        def sweep(run, phase, c=None, derived=None):
            if phase == "before_poll":
                return
            c = c if c is not None else run.c
            before = snap(c)
            key = canon(before["state"])
            if key in seen_states:
                return
            seen_states.add(key)
            cnt("sweep.states")
            cnt("sweep.states_in." + str(before["status"]))
            act = {}
            for r in before["state"]["sequence"]:
                if r.get("status") in ("running", "requested", "scheduled", "delayed", "pausing", "canceling", "resuming", "paused", "pending"):
                    act.setdefault(r["id"], set()).add(r["status"])
            if any(len(v) > 1 for v in act.values()):
                cnt("sweep.states_with_one_task_active_in_different_statuses")
            for req in statuses.ALL_STATUSES:
                c2 = clone(c)
                if canon(snap(c2)) != canon(before):
                    raise RuntimeError("clone differs from original")
                cnt("sweep.requests")
                out["evaluations"] += 1  # one evaluation = one request tried on one state
                try:
                    c2.request_workflow_status(req)
                    cnt("sweep.accepted")
                    # a request that is accepted takes effect: the status afterwards is the requested one or its sibling
                    # (pausing/paused, canceling/canceled, resuming/running - or the completed status a resume of a finished
                    # workflow leads to). A request that raises nothing and leaves the workflow somewhere else was swallowed.
                    fam = {"pausing": ("pausing", "paused"), "paused": ("pausing", "paused"),
                           "canceling": ("canceling", "canceled"), "canceled": ("canceling", "canceled"),
                           "running": ("running", "resuming", "succeeded", "failed"), "resuming": ("running", "resuming", "succeeded", "failed"),
                           "failed": ("failed",)}.get(req)
                    st_after = c2.get_workflow_status()
                    cnt("sweep.accepted_effect_checked")
                    if fam is not None and st_after not in fam:
                        viols.append(dict(prop="C04", kind="request_silently_ignored", subject=req, cause=None,
                                          detail="request %r in status %r raised nothing but the workflow is %r afterwards"
                                          % (req, before["status"], st_after), step=run.step))
                    # terminal is final: on a failed / canceled / succeeded workflow a request for any OTHER status is forbidden
                    # and must be refused with an error (succeeded -> failed is the documented exception; asking for the same
                    # status again is not forbidden, and what it does to a task acknowledged late is not judged)
                    if before["status"] in ("failed", "canceled", "succeeded") and req != before["status"] \
                            and not (before["status"] == "succeeded" and req == "failed"):
                        cnt("sweep.accepted_on_terminal")
                        after = snap(c2)
                        viols.append(dict(prop="C04", kind="forbidden_request_accepted_on_terminal", subject=req, cause=None,
                                          detail="request %r on a %s workflow raised nothing (state changed: %s; task statuses %r -> %r)"
                                          % (req, before["status"], canon(after) != canon(before),
                                             [r.get("status") for r in before["state"]["sequence"]],
                                             [r.get("status") for r in after["state"]["sequence"]]),
                                          step=run.step))
                    continue
                except Exception as e:
                    # any error is a rejection (InvalidWorkflowStatusTransition for forbidden transitions,
                    # InvalidEvent / InvalidStatus for statuses that are not workflow requests at all)
                    cnt("sweep.rejected_" + type(e).__name__)
                cnt("sweep.rejected")
                out["nontrivial"].add(workloads.digest([key, req]))
                after = snap(c2)
                if canon(after) != canon(before):
                    diff = [k for k in before if canon(before[k]) != canon(after[k])]
                    inflight_items = [a for a in run.inflight if a["item"] is not None]
                    viols.append(dict(prop="C04", kind="rejected_request_changed_state", subject=req,
                                      cause=(["rejected_request_active_items"] if inflight_items else None),
                                      detail="request %r in status %r was rejected but %s changed (task statuses %r -> %r)"
                                      % (req, before["status"], diff,
                                         [r.get("status") for r in before["state"]["sequence"]],
                                         [r.get("status") for r in after["state"]["sequence"]]), step=run.step))

        _sweep0 = sweep

        def sweep(run, phase):  # noqa: F811
            # the visited state, and - when actions are in flight - the transitional states one accepted pause / cancel request
            # away from it (pausing, canceling with the same actions in flight): the rows of those statuses are swept too
            _sweep0(run, phase)
            if phase != "before_poll" and run.inflight and run.status() == "running" and len(seen_states) % 3 == 0:
                for pre in ("pausing", "canceling"):
                    c1 = clone(run.c)
                    try:
                        c1.request_workflow_status(pre)
                    except Exception:
                        continue
                    _sweep0(run, phase, c=c1, derived=pre)

        # every third history has pause / cancel / resume requests of its own, so that transitional and canceled states
        # (with late acknowledgements and reports) are among the states swept
        inj = workloads.Injector(h64(seed, "inj"), dict(req=0.12, mid_req=0.2, max_req=3, reqs=["pausing", "canceling", "resuming", "canceled", "paused"])) \
            if seed % 3 == 2 else None
        if inj is not None:
            # (mid_req: a request may also land between a poll's answer and the provider's acknowledgements, which then arrive
            # late - e.g. at a workflow that is already canceled)
            run.mid_poll_hook = inj.mid

        def hook(r, phase):
            if inj is not None:
                inj(r, phase)
            sweep(r, phase)

        explore.run_free(run, explore.Policy(pseed=h64(seed, "p"), lazy_pct=50), hook=hook)
        sweep(run, "after_done")
        cnt("histories")
        for v in viols:
            v["workload"] = job.get("name")
            v["job"] = dict({k: job[k] for k in job if k not in ("lo", "hi")}, only=[seed, 0], lo=seed, hi=seed + 1)
            v["wf"], v["inputs"], v["script"] = run.wf, run.inputs, run.script
            out["violations"].append(v)
        if len(out["samples"]) < 1:
            out["samples"].append(dict(definition=run.wf, history=run.script, states_swept=len(seen_states),
                                       requests_per_state=len(statuses.ALL_STATUSES)))
    return out
