"""C17 - rerun re-executes only what was asked and converges to the clean outcome."""
import random

from ovf import workloads
from ovf.props.common import batches, scale, ASSUME_SIM
from ovf.props.reqsweep import clone, snap
from ovf.sim import explore
from ovf.sim.provider import Monitor, canon, h64

from orquesta import requests as orq_requests

LEVEL = "exploration"
TECHNIQUE = ("runtime monitoring: acceptance / resuming / justification / never-stuck assertions on reruns of generated failed "
             "histories + relational clean-twin (same scenario in which the re-executed actions succeed the first time)")
RULE = ("generated definitions x hashed outcomes driven to a completed status (task failure, with-items item failure, fail "
        "command, unreachable join, also succeeded and canceled ones, leftover actions canceled by the provider after the "
        "failure) x rerun request sets {default, every single failed task, the failed together with the canceled tasks, random subsets, with reset_items, a task that never ran, a route that does not exist} and rerun "
        "requests on clones of ACTIVE workflows; after an accepted rerun every action succeeds and the run continues "
        "to quiescence; asserted: rejection exactly for active workflows / unknown executions with the state "
        "unchanged, status resuming after acceptance, every later offer is a requested task, a descendant of one, or "
        "work still due when the workflow stopped, nothing else that had completed is repeated, no quiescent "
        "non-terminal state; convergence (one rerun round, failures injected as first-attempt action/item failures): "
        "final status and every non-racy output variable equal those of the clean twin; healthy workflows failed by the provider itself, rendered and rerun by default (compared with the same run without the interruption); non-trivial = accepted rerun "
        "that re-executed at least one task; distinct = (definition, history, request set) digest")
ASSUMPTIONS = ASSUME_SIM + ["descendants are taken from the definition graph (coarse but independent of the engine)",
                            "if the clean twin itself ends failed only the status is compared"]


from ovf.mon.rerun import RerunMon, descendants  # noqa: E402,F401


def nontrivial(run, m):
    return bool(run.notes.get("rerun_nontrivial"))


def extra_monitors():
    return []


RELABEL = {"stuck": ["C17", "stuck_after_rerun"], "offer_unknown_task": ["C17", "rerun_offered_engine_command"],
           "rerun_offered_item_that_did_not_fail": ["C17", "rerun_repeated_completed_item"]}


def reruns(job):
    out = dict(evaluations=0, nontrivial=set(), violations=[], samples=[], counters={}, sets={})
    C = out["counters"]

    def cnt(k, n=1):
        C[k] = C.get(k, 0) + n

    only = job.get("only")
    for seed in ([only[0]] if only else range(job["lo"], job["hi"])):
        m, inputs = workloads.gen_case(job, seed)
        wf = m.render()
        if not workloads.inspect_ok(wf):
            cnt("definitions_rejected_by_inspection")
            continue
        case = dict(wf=wf, inputs=inputs, oseed=h64(job.get("gseed", 0), seed, "o") % 100000, p_fail=job.get("p_fail", 0.25),
                    exotic=job.get("exotic", 0.3))
        pol = explore.Policy(pseed=h64(job.get("gseed", 0), seed, "p"), lazy_pct=[0, 40][seed % 2])
        rng = random.Random(h64(job.get("gseed", 0), seed, "rr"))
        # first run to a completed status; decides which request sets exist
        probe = explore.make_run(case, [], model=m)
        active_hook_done = []

        def try_rerun_while_active(run, phase):
            if phase == "after_done" and not active_hook_done and run.status() in ("running", "pausing", "paused", "canceling") \
                    and rng.random() < 0.3:
                active_hook_done.append(1)
                c2 = clone(run.c)
                before = snap(c2)
                cnt("rerun_requests_on_active_workflow")
                try:
                    c2.request_workflow_rerun()
                    out["violations"].append(dict(prop="C17", kind="rerun_accepted_on_active_workflow", subject=before["status"], cause=None,
                                                  detail="rerun was accepted while the workflow is %s" % before["status"], wf=wf,
                                                  workload=job.get("name"), job=dict({x: job[x] for x in job if x not in ("lo", "hi")}, only=[seed], lo=seed, hi=seed + 1)))
                except Exception as e:
                    if canon(snap(c2)) != canon(before):
                        out["violations"].append(dict(prop="C17", kind="rejected_rerun_changed_state", subject="rerun", cause=None,
                                                      detail="rerun on a %s workflow raised %s but changed the state" % (before["status"], type(e).__name__),
                                                      wf=wf, workload=job.get("name"),
                                                      job=dict({x: job[x] for x in job if x not in ("lo", "hi")}, only=[seed], lo=seed, hi=seed + 1)))

        if job.get("late_canceled"):
            # once the workflow has failed the provider cancels what is still running: those actions report `canceled`
            probe.outcomes.force = lambda a: (("canceled", None) if probe.ctl["first_terminal"] == "failed" else None)
        explore.run_free(probe, pol, hook=try_rerun_while_active)
        # the same on a workflow that was paused (pausing with actions in flight, then paused at rest)
        if len(probe.script) > 2:
            pr = explore.make_run(case, [], model=m)
            explore.play_script(pr, probe.script[: rng.randint(2, len(probe.script))])
            if pr.status() == "running":
                pr.request("pausing")
                for phase in ("pausing", "paused", "canceling"):
                    if phase == "canceling":
                        # a second probe of a prefix of the same history, canceled while actions are in flight
                        pr = explore.make_run(case, [], model=m)
                        explore.play_script(pr, probe.script[: random.Random(h64(seed, "cx")).randint(2, len(probe.script))])
                        if pr.status() == "running" and pr.inflight:
                            pr.request("canceling")
                    if pr.status() == phase:
                        active_hook_done[:] = []
                        rr = rng.random
                        rng.random = lambda: 0.0
                        try_rerun_while_active(pr, "after_done")
                        rng.random = rr
                    while pr.inflight:
                        pr.complete(pol.pick(pr))
        st = probe.status()
        cnt("first_run_" + st)
        if probe.inflight or st not in ("failed", "succeeded", "canceled"):
            continue
        seqrecs = probe.last["state"]["sequence"]
        failed = sorted(set((r["id"], r["route"]) for r in seqrecs if r.get("status") == "failed" and r["id"] in m.tasks))
        sets = [("default", None)]
        for t, r in failed[:3]:
            sets.append(("single", [(t, r, False)]))
            if m.tasks[t].items is not None:
                sets.append(("reset_items", [(t, r, True)]))
        canceled = sorted(set((r["id"], r["route"]) for r in seqrecs if r.get("status") == "canceled" and r["id"] in m.tasks))
        if canceled and st == "failed":
            cnt("first_runs_with_canceled_tasks")
            sets.append(("with_canceled", [(t, r, False) for t, r in failed + canceled]))
        if len(failed) >= 2:
            sets.append(("subset", [(t, r, rng.random() < 0.3) for t, r in rng.sample(failed, rng.randint(2, len(failed)))]))
        ran = sorted(set((r["id"], r["route"]) for r in seqrecs if r["id"] in m.tasks))
        okrecs = dict(((r["id"], r["route"]), r) for r in seqrecs if r.get("status") == "succeeded" and r["id"] in m.tasks)
        for t, r in failed[:2]:
            for src in m.inbound(t)[:2]:
                cand = [k for k in okrecs if k[0] == src]
                if cand:
                    sets.append(("upstream_of_failed", [(cand[0][0], cand[0][1], False)]))
        never = [t for t in m.tasks if t not in set(x[0] for x in ran)]
        if never:
            sets.append(("never_ran", [(never[0], 0, False)]))
        if ran:
            sets.append(("bad_route", [(ran[0][0], 97, False)]))
            if st == "failed":
                sets.append(("succeeded_task", [(t, r, False) for t, r in ran if (t, r) not in failed][:1]))
        for k, (label, reqs) in enumerate(sets):
            if only and len(only) > 1 and k != only[1]:
                continue
            if label == "succeeded_task" and not reqs:
                continue
            ms = workloads.monitors(job.get("flags"))
            run = explore.make_run(case, ms, model=m, label="rerun:" + label)
            explore.play_script(run, probe.script)
            led = workloads.mon(run, "ledger")
            ev = run.rerun(reqs)
            cnt("requests." + label)
            if label in ("never_ran", "bad_route"):
                if ev["exc"] is None:
                    run.viol("C17", "rerun_accepted_for_unknown_execution", "rerun of %r was accepted although that execution does "
                             "not exist" % (reqs,), subject=label)
            if ev["exc"] is None:
                cnt("accepted." + label)
                run.outcomes.force = lambda a: ("succeeded", None)
                before_offers = len(run.offers)
                explore.run_free(run, pol, start=False)
                run.finish()
                # identity of a re-executed action = (task, item, loop key); the attempt number restarts at a rerun
                after_ids = set((o["task"], o["item"], o.get("loop")) for o in run.offers[before_offers:])
                # ---- convergence with the clean twin (default rerun of plain action / item failures only)
                # (a default rerun leaves tasks the provider canceled as they are: the workflow then legitimately ends
                # canceled, there is no clean twin for that; the twin applies when they are named in the request)
                # (... and only if no task that ended failed / canceled had a satisfied transition in its first pass - e.g.
                # `when not succeeded()` on a task the provider canceled: what that transition staged or published is work
                # still due and legitimately runs after the rerun, the twin in which the task succeeds at once never has it)
                abended_with_next = [r["id"] for r in seqrecs if r.get("status") in ("failed", "canceled", "timeout", "abandoned")
                                     and any((r.get("next") or {}).values())]
                if (label == "with_canceled" or (label == "default" and not canceled)) and not (canceled and abended_with_next) \
                        and st == "failed" and led is not None and led.enabled and not led.fail_cmds \
                        and led.unhandled and not run.tags & {"late_arrival_int_join", "rearrival_at_running_task"} \
                        and all(not x.handled for x in led.execs if x.status == "failed") \
                        and not any(t in m.tasks and (m.is_split(t) or m.in_cycle(t)) for t, _, _ in after_ids):
                    # (the twin names a re-executed action by (task, item, loop key), without the route: it would also force
                    # the other executions of a multi-referenced task, and of a task in a loop whose passes were not all
                    # re-executed - found by the thorough tier; such reruns are judged by the other C17 rules only)
                    cnt("clean_twin_applicable")
                    clean = explore.make_run(case, [workloads.ledger.Ledger()], model=m, label="clean-twin")
                    clean.outcomes.force = lambda a, ids=after_ids: (("succeeded", None) if (a["task"], a["item"], a.get("loop")) in ids else None)
                    explore.run_free(clean, pol)
                    clean.finish()
                    cnt("clean_twins")
                    cl = workloads.mon(clean, "ledger")
                    if clean.status() != run.status():
                        run.viol("C17", "rerun_status_differs_from_clean_run", "after rerunning %s with all re-executed actions "
                                 "succeeding the workflow ended %s; the run in which they succeed the first time ends %s"
                                 % ([x.task for x in led.unhandled], run.status(), clean.status()), subject=run.status())
                    elif clean.status() == "succeeded":
                        racy = getattr(cl, "racy_out", None) or set()
                        oa, ob = run.c.get_workflow_output() or {}, clean.c.get_workflow_output() or {}
                        for name, spec, lang in m.output:
                            if spec[0] == "ref" and spec[1] not in racy and oa.get(name) != ob.get(name):
                                run.viol("C17", "rerun_output_differs_from_clean_run", "output %s = %r after the rerun, %r in "
                                         "the run in which the actions succeed the first time" % (name, oa.get(name), ob.get(name)),
                                         subject=name)
                                break
            else:
                cnt("rejected." + label)
                run.finish()
            out["evaluations"] += 1
            workloads.collect(out, dict(job, relabel=RELABEL), run, m, (seed, k), nontrivial, extra=dict(rerun=dict(label=label, reqs=reqs)))
    return out


def provider_failed(job):
    """the provider itself fails a healthy workflow (status request) while work is still due, renders the output, and later
    asks for a default rerun: nothing has to be re-executed, what was due is started, and the workflow ends with the status
    and output of the same run without the interruption"""
    out = dict(evaluations=0, nontrivial=set(), violations=[], samples=[], counters={}, sets={})
    C = out["counters"]
    only = job.get("only")
    for seed in ([only[0]] if only else range(job["lo"], job["hi"])):
        m, inputs = workloads.gen_case(job, seed)
        wf = m.render()
        if not workloads.inspect_ok(wf):
            C["definitions_rejected_by_inspection"] = C.get("definitions_rejected_by_inspection", 0) + 1
            continue
        case = dict(wf=wf, inputs=inputs, oseed=h64(job.get("gseed", 0), seed, "o") % 100000, p_fail=0.0)
        pol = explore.Policy(pseed=h64(job.get("gseed", 0), seed, "p"), lazy_pct=0)
        clean = explore.make_run(case, [workloads.ledger.Ledger()], model=m, label="uninterrupted")
        explore.run_free(clean, pol)
        clean.finish()
        ndone = len([op for op in clean.script if op[0] == "done"])
        if clean.status() != "succeeded" or ndone < 2:
            C["uninterrupted_run_not_succeeded"] = C.get("uninterrupted_run_not_succeeded", 0) + 1
            continue
        cl = workloads.mon(clean, "ledger")
        racy = getattr(cl, "racy_out", None) or set()
        for cut in sorted(set([1, ndone // 2, ndone - 1])):
            if only and len(only) > 1 and cut != only[1]:
                continue
            if cut < 1:
                continue
            run = explore.make_run(case, workloads.monitors(job.get("flags")), model=m, label="provider-failed at %d" % cut)
            run.request("running")
            k = 0
            while k < cut:
                run.poll()
                if not run.inflight:
                    break
                run.complete(pol.pick(run))
                k += 1
            run.poll()
            if run.status() != "running":
                continue
            ev = run.request("failed")
            if ev["exc"] is not None:
                C["fail_request_refused"] = C.get("fail_request_refused", 0) + 1
                continue
            while run.inflight:
                run.complete(pol.pick(run))
            run.render()
            evr = run.rerun(None)
            C["default_reruns_after_provider_failure"] = C.get("default_reruns_after_provider_failure", 0) + 1
            if evr["exc"] is None:
                explore.run_free(run, pol, start=False)
                run.finish()
                oa, ob = run.c.get_workflow_output() or {}, clean.c.get_workflow_output() or {}
                if run.status() == "succeeded":
                    C["outputs_compared_with_uninterrupted_run"] = C.get("outputs_compared_with_uninterrupted_run", 0) + 1
                    for name, spec, lang in m.output:
                        if spec[0] == "ref" and spec[1] not in racy and oa.get(name) != ob.get(name):
                            run.viol("C17", "rerun_output_differs_from_clean_run", "output %s = %r after the provider failed the workflow, "
                                     "rendered, and asked for a default rerun; %r in the same run without the interruption"
                                     % (name, oa.get(name), ob.get(name)), subject=name)
                            break
                elif not run.tags and run.status() not in ("succeeded", "resuming", "running") and not run.inflight:
                    run.viol("C17", "rerun_status_differs_from_clean_run", "the workflow the provider failed and reran ended %s, the same "
                             "run without the interruption succeeded" % run.status(), subject=run.status())
            else:
                run.finish()
            out["evaluations"] += 1
            workloads.collect(out, dict(job, relabel=RELABEL), run, m, (seed, cut), nontrivial)
    return out


def jobs(tier, seed):
    P = dict(p_intjoin=0.2, p_items=0.25, p_retry=0.1, p_fail_cmd=0.1, p_join=0.6, nmax=6)
    js = batches("reruns", scale(tier, 128, 5000), scale(tier, 8, 100), gen="mix", p_loop=0.2, P=P, gseed=seed, p_fail=0.25, name="reruns")
    # join-free, with-items heavy definitions: outside the zones of the recorded rerun defects around joins
    js += batches("reruns", scale(tier, 96, 3000), scale(tier, 6, 100), gen="mix", p_loop=0.2, gseed=seed + 1, p_fail=0.2,
                  P=dict(P, p_join=0.0, p_items=0.5, p_fail_cmd=0.03, p_retry=0.05, nmax=5, max_do=2, max_trans=2, xs_max=2),
                  name="reruns-no-joins")
    # the provider cancels the actions still running once the workflow has failed; reruns name failed and canceled tasks
    js += batches("reruns", scale(tier, 64, 2500), scale(tier, 8, 100), gen="dag", gseed=seed + 2, p_fail=0.3, late_canceled=True,
                  P=dict(P, p_intjoin=0.0, p_fail_cmd=0.0, p_items=0.1, p_retry=0.0, nmax=5), name="reruns-after-provider-cancel")
    # a healthy workflow failed by the provider itself, rendered, and rerun by default (nothing to re-execute, work still due)
    js += batches("provider_failed", scale(tier, 80, 2000), scale(tier, 8, 100), gen="dag", gseed=seed + 3,
                  P=dict(P, p_intjoin=0.0, p_fail_cmd=0.0, p_items=0.15, p_retry=0.0, nmax=5, p_pub=0.8), name="failed-by-the-provider")
    return js


def reach(m):
    c = m["counters"]
    if c.get("rerunmon.reruns_accepted", 0) < 50 or c.get("clean_twins", 0) < 6 or c.get("rerunmon.reexecuted", 0) < 30:
        return "accepted %s, clean twins %s, re-executed %s" % (c.get("rerunmon.reruns_accepted"), c.get("clean_twins"), c.get("rerunmon.reexecuted"))
    return None
