"""C07 - a join runs once, and only when its barrier is satisfied (barrier ledger)."""
from ovf.props.c03 import parked  # noqa: F401
from ovf.props.common import batches, family_slices, scale, ASSUME_SIM
from ovf.workloads import conduct, mon  # noqa: F401
from ovf.props.orders import orders  # noqa: F401
from ovf.props.sweeps import ctl_sweep  # noqa: F401

LEVEL = "exploration"
TECHNIQUE = "runtime monitoring: barrier ledger per (join, route) fed by harness-reported completions; every arrival order of small definitions"
RULE = ("generated definitions rich in joins (`join: all` and `join: N`, 2-5 inbound branches incl. failing, remediated "
        "and never-arriving ones, joins behind splits and inside counter-bounded loops) x hashed outcomes x seeded "
        "schedules, plus every completion order of small join definitions (so every arrival order relative to the "
        "join's own start and completion); additionally the decision-shape family (exhaustive in the thorough tier, a rotating slice in the quick tier): every acyclic edge set over 4 tasks with a join x condition succeeded/failed per edge x outcome per task (4128 definitions); inbound tasks that wait at the provider (pending / paused) while sibling branches fail into the join; non-trivial = a join with >= 2 inbound tasks received >= 1 arrival; "
        "distinct = (definition, history) digest")
ASSUMPTIONS = ASSUME_SIM

PJ = dict(p_join=0.85, p_intjoin=0.35, p_intjoin_less=0.0, p_items=0.08, p_retry=0.08, nmin=3)


def nontrivial(run, m):
    led = mon(run, "ledger")
    if led is None or not led.enabled:
        return False
    for (jn, route), j in led.joins.items():
        if len(m.inbound(jn)) >= 2 and (j["arr"] or j["fired"]):
            return True
    return False


def jobs(tier, seed):
    js = batches("conduct", scale(tier, 260, 5000), scale(tier, 20, 100), gen="mix", p_loop=0.3, P=PJ, gseed=seed,
                 scheds=scale(tier, 2, 4), lazy=[0, 50, 80, 25], p_fail=0.15, name="free")
    js += batches("conduct", scale(tier, 160, 3000), scale(tier, 20, 100), gen="dag", P=dict(PJ, p_fail_cmd=0.0), gseed=seed + 3,
                  scheds=2, lazy=[0, 50], p_fail=0.3, ctl=dict(rerun=1.0), name="default-rerun")
    js += batches("orders", scale(tier, 70, 1500), scale(tier, 5, 40), gen="dag", P=dict(PJ, nmax=5, nmin=3, p_items=0.0),
                  gseed=seed + 1, max_orders=scale(tier, 80, 720), max_completions=scale(tier, 6, 7), name="orders")
    js += batches("conduct", scale(tier, 60, 1200), scale(tier, 20, 100), gen="dag", P=dict(PJ, p_intjoin=0.9, p_intjoin_less=0.9),
                  gseed=seed + 2, scheds=2, lazy=[0, 60], p_fail=0.1, name="int-barrier-smaller-than-fan-in")
    # decision-shape family (exhaustive in the thorough tier, a rotating slice in the quick tier): every acyclic edge set over 4 tasks with a join x condition succeeded/failed per edge x outcome per task (4128 definitions)
    js += family_slices("orders", 4128, 128, tier, seed, parts=2, gen="cshape", p_fail=0.0, max_orders=120, max_completions=6, name="decision-shapes-orders")
    # pause (+ resume after rest) at every position: a join left partial must still end in the unreachable-join failure
    js += family_slices("ctl_sweep", 4128, 24, tier, seed + 1, parts=12, gen="cshape", modes=["pause"], p_fail=0.0,
                        name="decision-shapes-pause-sweep")
    js += family_slices("parked", 4128, 64, tier, seed, parts=4, gen="cshape", p_park=50, scheds=2, p_fail=0.0,
                        name="decision-shapes-with-waiting-inbound-tasks")
    # inbound tasks of a join that wait at the provider (pending / paused): the join stays satisfiable while they wait
    js += batches("parked", scale(tier, 140, 3000), scale(tier, 10, 100), gen="dag", gseed=seed + 5, p_fail=0.3, p_park=45,
                  P=dict(PJ, p_items=0.1, p_retry=0.05, nmax=5), scheds=2, name="inbound-task-waits-at-the-provider")
    return js


def reach(m):
    c = m["counters"]
    if c.get("ledger.join_arrivals", 0) < 100 or c.get("ledger.join_fired", 0) < 30:
        return "join arrivals %s, firings %s" % (c.get("ledger.join_arrivals"), c.get("ledger.join_fired"))
    return None
