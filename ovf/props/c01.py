"""C01 - every task execution is justified by the definition, exactly once (token ledger)."""
from ovf.props.common import batches, family_slices, scale, ASSUME_SIM
from ovf.workloads import conduct, mon  # noqa: F401  (conduct is a job entry point)
from ovf.props.sweeps import ctl_sweep  # noqa: F401
from ovf.props.orders import orders  # noqa: F401

LEVEL = "exploration"
TECHNIQUE = "runtime monitoring: token ledger fed by boundary events with an independent condition evaluator"
RULE = ("generated inspection-clean definitions (dag: forks, decisions, joins, splits, engine commands, with-items, "
        "retry; loop: dag + one counter-bounded back edge) x hashed outcome assignments x seeded eager/lazy schedules, "
        "plus every completion order of small definitions; a case is non-trivial when the definition has a fork, "
        "decision or loop and the ledger decided at least one transition true and one false; distinct = distinct "
        "(definition, history) digest")
ASSUMPTIONS = ASSUME_SIM


def nontrivial(run, m):
    led = mon(run, "ledger")
    if led is None or not led.enabled:
        return False
    shaped = bool(m.tags & {"fork", "decision", "loop", "join", "split"})
    return shaped and led.stats["decided_true"] > 0 and led.stats["decided_false"] > 0


def jobs(tier, seed):
    n = scale(tier, 320, 6000)
    P = dict(p_intjoin=0.3)
    js = batches("conduct", n, scale(tier, 20, 100), gen="mix", p_loop=0.3, P=P, gseed=seed, scheds=scale(tier, 2, 4),
                 lazy=[0, 40, 70, 20], name="free")
    js += batches("orders", scale(tier, 60, 1200), scale(tier, 6, 40), gen="dag", P=dict(P, nmax=5, p_items=0.05),
                  gseed=seed + 1, max_orders=scale(tier, 60, 720), max_completions=scale(tier, 6, 7), name="orders")
    # actions that sit `scheduled` at the provider while pause / resume requests come in
    js += batches("conduct", scale(tier, 100, 2000), scale(tier, 20, 100), gen="mix", p_loop=0.2, P=P, gseed=seed + 3, scheds=2,
                  lazy=[0, 40], p_fail=0.08, ack_chain="lazy", ctl=dict(req=0.12, mid_req=0.15, max_req=4, reqs=["pausing", "paused", "resuming", "running"]),
                  name="lazy-start-with-pauses")
    # zone of a recorded defect (F20): the looping transition forks to a single-inbound task outside the loop
    js += batches("conduct", scale(tier, 40, 600), scale(tier, 20, 100), gen="loop", P=dict(P, p_loop_fork=1.0, p_loop_fork_single=1.0),
                  gseed=seed + 2, scheds=2, lazy=[0, 50], p_fail=0.08, name="loop-fork-single-inbound")
    # pause and resume at once with actions in flight (the workflow stays `resuming` while they report)
    js += family_slices("ctl_sweep", 4128, 24, tier, seed + 2, parts=12, gen="cshape", modes=["pause_resume"], p_fail=0.0,
                        name="decision-shapes-pause-resume")
    # ... and its lawful neighbour: the outside task is multi-referenced, so every pass gets a route of its own and
    # executions of several passes overlap without colliding
    js += batches("conduct", scale(tier, 40, 600), scale(tier, 20, 100), gen="loop", P=dict(P, p_loop_fork=1.0),
                  gseed=seed + 4, scheds=3, lazy=[0, 50, 70], p_fail=0.05, name="loop-fork-split")
    # decision-shape family (exhaustive in the thorough tier, a rotating slice in the quick tier): every acyclic edge set over 4 tasks with a join x condition succeeded/failed per edge x outcome per task (4128 definitions)
    js += family_slices("orders", 4128, 128, tier, seed + 1, parts=2, gen="cshape", p_fail=0.0, max_orders=120, max_completions=6, name="decision-shapes-orders")
    # engine commands beside each other (exhaustive family: one or two transitions x condition x {implicit continue, continue, noop, fail, noop+fail, task+fail, task} x publish x outcome; 3612 definitions)
    js += family_slices("conduct", 3612, 128, tier, seed + 1, parts=2, gen="cmds", scheds=1, lazy=[0], p_fail=0.0, name="engine-command-combinations")
    return js


def reach(m):
    c = m["counters"]
    if c.get("ledger.execs", 0) < 100 or c.get("ledger.decided_false", 0) < 10:
        return "ledger saw %s executions / %s false decisions" % (c.get("ledger.execs"), c.get("ledger.decided_false"))
    return None
