"""helpers shared by the property modules"""
ASSUME_SIM = [
    "the provider simulator obeys the st2 protocol described in DESIGN.md 1.1 (ack before next poll, one report "
    "per acknowledged action, accumulated with-items results in item order)",
    "definitions, outcomes, schedules and insertion points are those of the generated classes named in `rule`; "
    "nothing is claimed outside them",
]


def batches(fn, n, per, **kw):
    out = []
    i = 0
    while i < n:
        out.append(dict(fn=fn, lo=i, hi=min(i + per, n), **kw))
        i += per
    return out


def scale(tier, quick, thorough):
    return quick if tier == "quick" else thorough


def family_slices(fn, total, per, tier, seed, parts=3, **kw):
    """jobs over an exhaustively enumerated family of `total` cases: all of it in the thorough tier, a third of it
    (rotating with the seed) in the quick tier"""
    js = batches(fn, total, per, **kw)
    if tier == "quick":
        js = [j for i, j in enumerate(js) if i % parts == seed % parts]
    return js


def positions(base, budget=40000):
    """insertion positions of a base history: all of them, or - for a long history, where one run costs about the square
    of its length (every expression evaluation converts the whole recorded state) - an evenly spread selection
    (always including the first and the last position); 40 operations: 25 positions, 77 operations: 6"""
    n = len(base)
    cap = max(4, int(budget // max(1, n * n)))
    if n <= cap:
        return list(range(1, n + 1))
    return sorted(set([1, n] + [1 + (i * (n - 1)) // (cap - 1) for i in range(cap)]))
