"""helpers shared by the property modules"""
ASSUME_SIM = [
    "the provider simulator obeys the st2 protocol described in DESIGN.md 1.1 (ack before next poll, one report "
    "per acknowledged action, accumulated with-items results in item order)",
    "definitions, outcomes, schedules and insertion points are those of the generated classes named in `rule`; "
    "nothing is claimed outside them",
]


def batches(fn, n, per, **kw):
    out = []
    i = 0
    while i < n:
        out.append(dict(fn=fn, lo=i, hi=min(i + per, n), **kw))
        i += per
    return out


def scale(tier, quick, thorough):
    return quick if tier == "quick" else thorough
