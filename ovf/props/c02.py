"""C02 - the reported workflow status is truthful about the tasks."""
from ovf.props.c03 import parked  # noqa: F401
from ovf.props.common import batches, family_slices, scale, ASSUME_SIM
from ovf.workloads import conduct, corpus, mon  # noqa: F401
from ovf.props.sweeps import ctl_sweep  # noqa: F401

LEVEL = "exploration"
TECHNIQUE = "runtime monitoring: status assertions after every API call against the harness's in-flight set and the ledger's independent 'handled' decision"
RULE = ("generated definitions x hashed outcomes x seeded schedules with pause/resume/cancel requests, crashes and early "
        "output renders inserted at seeded positions, plus a sweep inserting a pause(+resume) or a cancel at every "
        "position of base histories; status truthfulness asserted after every API call; additionally the decision-shape family (exhaustive in the thorough tier, a rotating slice in the quick tier): every acyclic edge set over 4 tasks with a join x condition succeeded/failed per edge x outcome per task (4128 definitions); tasks that wait at the provider (an action reports pending or paused, is answered / runs again later, the provider resumes the workflow); engine commands beside each other (exhaustive family: one or two transitions x condition x {implicit continue, continue, noop, fail, noop+fail, task+fail, task} x publish x outcome; 3612 definitions); non-trivial = history with at "
        "least one accepted control request or at least one reported failure; distinct = (definition, history) digest")
ASSUMPTIONS = ASSUME_SIM


def nontrivial(run, m):
    reqs = [op for op in run.script if op[0] == "req" and op[1] != "running"]
    fails = [op for op in run.script if op[0] == "done" and op[4] != "succeeded"]
    return bool(reqs or fails)


def jobs(tier, seed):
    js = batches("conduct", scale(tier, 160, 4000), scale(tier, 10, 100), gen="mix", p_loop=0.25, gseed=seed,
                 P=dict(p_intjoin=0.3), scheds=2, ctl=dict(req=0.07, crash=0.04, early_render=0.3, max_req=4), name="random-ctl")
    js += batches("conduct", scale(tier, 100, 2000), scale(tier, 20, 100), gen="mix", gseed=seed + 5, P=dict(p_intjoin=0.3),
                  scheds=2, name="free")
    js += batches("conduct", scale(tier, 100, 2000), scale(tier, 20, 100), gen="mix", gseed=seed + 6, P=dict(p_intjoin=0.3), scheds=2,
                  ack_chain="lazy", ctl=dict(req=0.15, max_req=4, reqs=["pausing", "paused", "resuming", "running", "canceling"]),
                  name="lazy-start-with-requests")
    js += batches("ctl_sweep", scale(tier, 24, 600), scale(tier, 2, 20), gen="mix", p_loop=0.2, gseed=seed + 9,
                  P=dict(p_intjoin=0.3, nmax=6), modes=["pause", "cancel"], name="sweep")
    # fail commands with clean-up siblings under pause / cancel at every position
    js += batches("ctl_sweep", scale(tier, 28, 600), scale(tier, 2, 20), gen="dag", gseed=seed + 10, p_fail=0.35,
                  P=dict(p_fail_cmd=0.45, nmax=5, p_items=0.05, p_retry=0.05), modes=["cancel", "pause"], name="sweep-fail-commands")
    # pause, resume before anything reports, pause again (the workflow is `resuming` with actions in flight)
    js += batches("ctl_sweep", scale(tier, 30, 800), scale(tier, 3, 25), gen="mix", p_loop=0.2, gseed=seed + 14,
                  P=dict(p_intjoin=0.3, nmax=5), modes=["pause_resume_pause", "pause_resume"], p_fail=0.3, name="pause-resume-pause")
    js += family_slices("ctl_sweep", 4128, 24, tier, seed + 5, parts=12, gen="cshape", modes=["pause_resume"], p_fail=0.0,
                        name="decision-shapes-pause-resume")
    # actions acknowledged with mixed statuses (running / scheduled / requested / delayed)
    js += batches("conduct", scale(tier, 100, 2000), scale(tier, 20, 100), gen="mix", gseed=seed + 15, P=dict(p_intjoin=0.3), scheds=2,
                  ack_chain="mixed", ctl=dict(req=0.1, max_req=3, reqs=["pausing", "paused", "resuming", "running", "canceling"]),
                  name="mixed-acknowledgements")
    # actions that wait at the provider (pending / paused tasks): paused only with nothing in flight, pausing only with something
    js += batches("parked", scale(tier, 100, 2500), scale(tier, 10, 100), gen="dag", gseed=seed + 12, p_fail=0.15,
                  P=dict(p_intjoin=0.3, p_items=0.35, p_retry=0.1, p_expr_conc=0.2, xs_max=3, nmax=5), scheds=2, name="pending-and-paused-tasks")
    # the repository's own fixture definitions under generated outcomes, schedules and requests
    js += [dict(fn="corpus", parts=4, part=i, runs=scale(tier, 4, 40), gseed=seed, ctl=dict(req=0.08, max_req=3, crash=0.04, early_render=0.3), name="corpus") for i in range(4)]
    # decision-shape family (exhaustive in the thorough tier, a rotating slice in the quick tier): every acyclic edge set over 4 tasks with a join x condition succeeded/failed per edge x outcome per task (4128 definitions)
    js += family_slices("ctl_sweep", 4128, 24, tier, seed + 3, parts=12, gen="cshape", modes=["pause", "cancel"], p_fail=0.0, name="decision-shapes-sweep")
    # engine commands beside each other (exhaustive family: one or two transitions x condition x {implicit continue, continue, noop, fail, noop+fail, task+fail, task} x publish x outcome; 3612 definitions)
    js += family_slices("conduct", 3612, 128, tier, seed, parts=2, gen="cmds", scheds=1, lazy=[0], p_fail=0.0, name="engine-command-combinations")
    return js


def reach(m):
    c = m["counters"]
    if c.get("status.pausing_seen", 0) < 5 or c.get("status.canceling_seen", 0) < 5:
        return "pausing seen %s times, canceling %s" % (c.get("status.pausing_seen"), c.get("status.canceling_seen"))
    return None
