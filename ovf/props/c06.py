"""C06 - a task sees exactly the variables published by its causal ancestors (causal-context oracle)."""
from ovf.props.common import batches, scale, ASSUME_SIM
from ovf.workloads import conduct, mon  # noqa: F401
from ovf.props.orders import orders  # noqa: F401

LEVEL = "exploration"
TECHNIQUE = "runtime monitoring: causal-context oracle (unique taint tokens per publish, own execution DAG, domination rule at joins) compared with every offered context, rendered input and the output"
RULE = ("publish-heavy generated definitions (unique and deliberately conflicting variable names, values that record "
        "their own history by concatenation, diamonds, nested joins, splits, loops, both expression languages and all "
        "four ctx reference forms) x hashed outcomes x seeded schedules, plus every arrival order of small ones; every "
        "offered context, rendered action input and rendered output is compared with the oracle; additionally the EXHAUSTIVE family of acyclic shapes over 4 tasks (every edge set with a join x every grouping of a task's outgoing edges into one transition or one per target x every per-transition choice of publishing the shared variable, once with values that record their history and once with two constants that recur: 2 x 1024 definitions, every completion order of each) and a hashed sample of the 5-task family; the multi-entry-cycle family (a task in a cycle reached from 2-3 parallel branches, 32 definitions) under every completion order (passes one after the other are checked in full, overlapping passes are finding F20); non-trivial = a join "
        "merged branches that disagree on at least one variable, or a context with >= 2 published variables was "
        "checked; distinct = (definition, history) digest")
ASSUMPTIONS = ASSUME_SIM

PC = dict(p_pub=0.85, p_conflict=0.75, p_join=0.7, p_items=0.05, p_retry=0.05, p_ainput=0.4, p_fail_cmd=0.03, nmin=3)


def nontrivial(run, m):
    led = mon(run, "ledger")
    if led is None or not led.enabled:
        return False
    return led.stats["join_conflicts"] > 0 or (led.stats["ctx_checked"] >= 3 and "publish" in m.tags)


def jobs(tier, seed):
    js = batches("conduct", scale(tier, 300, 6000), scale(tier, 20, 100), gen="mix", p_loop=0.2, P=PC, gseed=seed,
                 scheds=scale(tier, 2, 4), lazy=[0, 50, 80, 30], p_fail=0.1, name="free")
    js += batches("orders", scale(tier, 70, 1500), scale(tier, 5, 40), gen="dag", P=dict(PC, nmax=5, p_items=0.0), gseed=seed + 1,
                  max_orders=scale(tier, 80, 720), max_completions=scale(tier, 6, 7), p_fail=0.05, name="orders")
    # deeply nested joins over few variable names: the shapes in which merged context lists disagree on order
    js += batches("orders", scale(tier, 60, 1500), scale(tier, 4, 40), gen="dag", gseed=seed + 2, p_fail=0.0,
                  P=dict(PC, nmin=5, nmax=7, p_join=0.95, p_pub=0.9, p_conflict=0.95, p_items=0.0, p_retry=0.0, p_fail_cmd=0.0,
                         p_res_cond=0.0, p_delay=0.0),
                  max_orders=scale(tier, 60, 400), max_completions=scale(tier, 7, 8), name="nested-joins")
    # exhaustive: every acyclic shape over 4 tasks x transition grouping x publish pattern (1024 definitions), every
    # completion order of each; plus a sample of the 5-task family
    js += batches("orders", 1024, 64, gen="shape", gseed=0, p_fail=0.0, max_orders=120, max_completions=6, name="shapes-4-exhaustive")
    js += batches("orders", 36, 6, gen="chain", gseed=0, p_fail=0.0, max_orders=120, max_completions=7, name="chains-with-recurring-values")
    js += batches("orders", 1024, 64, gen="shape", shape_literal=True, gseed=0, p_fail=0.0, max_orders=120, max_completions=6,
                  name="shapes-4-literal-publishes")
    # multi-entry cycles (a task in a cycle reached from 2-3 parallel branches): every completion order, so passes one after
    # the other (lawful, fully checked) occur beside overlapping ones (finding F20, tagged by its cause)
    js += batches("orders", 32, 4, gen="mcycle", gseed=0, p_fail=0.0, max_orders=scale(tier, 120, 720), max_completions=scale(tier, 8, 9),
                  name="multi-entry-cycles")
    js += batches("orders", scale(tier, 160, 8000), scale(tier, 16, 100), gen="shape", shape_n=5, shape_sample=True, gseed=seed + 7,
                  p_fail=0.0, max_orders=scale(tier, 60, 240), max_completions=6, name="shapes-5-sampled")
    return js


def reach(m):
    c = m["counters"]
    if c.get("ledger.ctx_vars", 0) < 5000 or c.get("ledger.join_conflicts", 0) < 5:
        return "ctx vars compared %s, join conflicts %s" % (c.get("ledger.ctx_vars"), c.get("ledger.join_conflicts"))
    return None
