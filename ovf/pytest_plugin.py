"""Secondary workload: the repository's own test suite run under the state-independent monitors.

Loaded with `-p ovf.pytest_plugin`.  Unit tests poke internals, so only monitors that need no history
are installed: the evaluator purity contract (C16) and the append-only / frozen-record comparison
around every conductor API call (C18).  Counts and violations are written to $OVF_PLUGIN_OUT."""
import copy
import json
import os

STATE = dict(api_calls=0, pairs=0, violations=[], purity_checks=0)


def _check_pair(op, p, q):
    for key in ("contexts", "routes"):
        a, b = p[key], q[key]
        if len(b) < len(a) or b[: len(a)] != a:
            STATE["violations"].append(dict(prop="C18", kind=key + "_not_append_only", detail="%s changed an earlier %s entry" % (op, key)))
    a, b = p["sequence"], q["sequence"]
    if len(b) < len(a):
        STATE["violations"].append(dict(prop="C18", kind="sequence_shrank", detail="%s: %d -> %d records" % (op, len(a), len(b))))
    for i, (r0, r1) in enumerate(zip(a, b)):
        if "status" in r0 and (r0["ctxs"]["in"] != r1["ctxs"]["in"] or r0["prev"] != r1["prev"]):
            STATE["violations"].append(dict(prop="C18", kind="started_record_changed",
                                            detail="%s: record %d (%s) ctxs/prev changed" % (op, i, r0["id"])))
        if r0.get("status") in ("succeeded", "failed", "canceled", "timeout", "abandoned") and r0.get("next") and \
                (r0["next"] != r1.get("next") or r0.get("status") != r1.get("status")):
            STATE["violations"].append(dict(prop="C18", kind="decided_record_changed",
                                            detail="%s: record %d (%s) changed after its transitions were decided" % (op, i, r0["id"])))


def pytest_configure(config):
    from ovf import env
    env.setup_path()
    from ovf.mon import purity
    from orquesta import conducting

    STATE["ep"] = purity.EvalPurity.install()
    for name in ("update_task_state", "request_workflow_status", "get_next_tasks", "render_workflow_output"):
        orig = getattr(conducting.WorkflowConductor, name)

        def make(orig, name):
            depth = dict(n=0)

            def wrapped(self, *a, **kw):
                if depth["n"] or self._workflow_state is None:
                    return orig(self, *a, **kw)
                depth["n"] += 1
                try:
                    before = copy.deepcopy(self._workflow_state.serialize())
                    try:
                        return orig(self, *a, **kw)
                    finally:
                        STATE["api_calls"] += 1
                        if self._workflow_state is not None:
                            STATE["pairs"] += 1
                            _check_pair(name, before, self._workflow_state.serialize())
                finally:
                    depth["n"] -= 1
            return wrapped

        setattr(conducting.WorkflowConductor, name, make(orig, name))


def pytest_sessionfinish(session, exitstatus):
    ep = STATE.pop("ep", None)
    if ep is not None:
        STATE["purity_checks"] = ep.evaluations
        for v in ep.violations:
            STATE["violations"].append(dict(prop="C16", kind="evaluate_mutated_context",
                                            detail="%s.evaluate(%r) modified its data argument: %r" % (v["evaluator"], v["text"], v["changed"])))
    STATE["exitstatus"] = int(exitstatus)
    out = os.environ.get("OVF_PLUGIN_OUT")
    if out:
        with open(out, "w") as f:
            json.dump(STATE, f)
