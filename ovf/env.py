"""Process environment: import orquesta from the repository working tree (never from a copy).

OVF_REPO may point somewhere else than /repo; this is used only while validating the monitors
against deliberately broken scratch copies. Registered commands never set it.
"""
import os
import sys

sys.dont_write_bytecode = True

VERIF = os.path.dirname(os.path.dirname(os.path.abspath(__file__)))
REPO = os.environ.get("OVF_REPO", "/repo")
GUARD = "ORQUESTA_VERIF"
# OVF_SCRATCH (validation against scratch copies only, never set by registered commands): keep work files and the
# evidence of such a run out of /verif, so that the committed evidence always describes /repo itself
_SCRATCH = os.environ.get("OVF_SCRATCH")
WORK = os.path.join(_SCRATCH, "work") if _SCRATCH else os.path.join(VERIF, ".work")
EVIDENCE = os.path.join(_SCRATCH, "evidence") if _SCRATCH else os.path.join(VERIF, "evidence")

os.environ.setdefault(GUARD, "1")
os.environ.setdefault("PYTHONDONTWRITEBYTECODE", "1")


def setup_path():
    if sys.path[0] != REPO:
        if REPO in sys.path:
            sys.path.remove(REPO)
        sys.path.insert(0, REPO)
    import orquesta

    here = os.path.realpath(os.path.dirname(orquesta.__file__))
    want = os.path.realpath(os.path.join(REPO, "orquesta"))
    if here != want:
        raise RuntimeError("orquesta imported from %s, expected %s" % (here, want))
    import logging

    logging.disable(logging.CRITICAL)
    return orquesta


def seed():
    try:
        return int(os.environ.get("VERIF_SEED", "0"))
    except ValueError:
        return 0


def ensure_dirs():
    for d in (WORK, EVIDENCE, os.path.join(WORK, "replays")):
        os.makedirs(d, exist_ok=True)


if __name__ == "__main__":
    ensure_dirs()
    o = setup_path()
    print("ovf setup ok: orquesta from", os.path.dirname(o.__file__))
