"""CLI: python -m ovf.check <Cxx> [--tier quick|thorough] | --replay <file>

Fans the property's jobs out over worker subprocesses (subprocess.run(timeout=) per batch), merges
what the monitors observed, separates known findings from new violations, writes
evidence/<Cxx>.json and prints the verdict.

exit 0  held on everything explored (KNOWN-FINDING lines may be printed)
exit 1  at least one `VIOLATION property=<id> replay=<path>` line
exit 2  inconclusive (watchdog fired, a worker crashed, or a deciding monitor was never reached)
"""
import argparse
import concurrent.futures
import importlib
import json
import os
import subprocess
import sys
import time

from ovf import env, findings

NWORK = int(os.environ.get("OVF_WORKERS", "16"))


def _mod(prop):
    return importlib.import_module("ovf.props.%s" % prop.lower())


def run_jobs(jobs, tier, hashseed="0", timeout=None):
    """distribute jobs over worker subprocesses; returns (results, problems)"""
    env.ensure_dirs()
    timeout = timeout or (1800 if tier == "quick" else 10800)
    nw = max(1, min(NWORK, len(jobs)))
    chunks = [[] for _ in range(nw)]
    for i, j in enumerate(jobs):
        chunks[i % nw].append(j)
    tag = "%d_%d" % (os.getpid(), int(time.time() * 1000) % 100000000)
    problems = []

    def one(k):
        jf = os.path.join(env.WORK, "jobs_%s_%d.json" % (tag, k))
        of = os.path.join(env.WORK, "out_%s_%d.json" % (tag, k))
        with open(jf, "w") as f:
            json.dump(chunks[k], f)
        e = dict(os.environ, PYTHONHASHSEED=str(chunks[k][0].get("hashseed", hashseed)), PYTHONDONTWRITEBYTECODE="1")
        e[env.GUARD] = "1"
        try:
            p = subprocess.run([sys.executable, "-B", "-X", "faulthandler", "-m", "ovf.worker", jf, of], cwd=env.VERIF,
                               env=e, timeout=timeout, stdout=subprocess.PIPE, stderr=subprocess.PIPE)
            if p.returncode != 0 or not os.path.exists(of):
                problems.append("worker %d exit %s: %s" % (k, p.returncode, p.stderr.decode(errors="replace")[-1500:]))
                return []
            with open(of) as f:
                return json.load(f)
        except subprocess.TimeoutExpired:
            problems.append("worker %d: watchdog (%ds) fired" % (k, timeout))
            return []
        finally:
            for x in (jf, of):
                try:
                    os.remove(x)
                except OSError:
                    pass

    results = []
    with concurrent.futures.ThreadPoolExecutor(max_workers=nw) as ex:
        for r in ex.map(one, range(nw)):
            results.extend(r)
    return results, problems


def merge(results):
    out = dict(evaluations=0, nontrivial=set(), violations=[], samples=[], counters={}, sets={})
    for r in results:
        out["evaluations"] += r.get("evaluations", 0)
        out["nontrivial"].update(r.get("nontrivial", []))
        out["violations"].extend(r.get("violations", []))
        for s in r.get("samples", []):
            if len(out["samples"]) < 3:
                out["samples"].append(s)
        for k, v in (r.get("counters") or {}).items():
            if k.startswith("max_") or ".max_" in k:
                out["counters"][k] = max(out["counters"].get(k, 0), v)
            else:
                out["counters"][k] = out["counters"].get(k, 0) + v
        for k, v in (r.get("sets") or {}).items():
            out["sets"].setdefault(k, set()).update(v)
    return out


def reachmap(prop, entered):
    """functions of the property's anchor files (properties.jsonl) the workload entered / never entered"""
    if entered is None:
        return {"note": "sys.monitoring unavailable: no reach map"}
    import ast
    entered = set(entered)
    files = []
    try:
        with open(os.path.join(env.VERIF, "properties.jsonl")) as f:
            for l in f:
                p = json.loads(l)
                if p["id"] == prop:
                    files = p["anchors"]["files"]
    except Exception:
        pass
    out = {"repository_functions_entered": len(entered), "anchor_files": {}}
    for rel in files:
        try:
            tree = ast.parse(open(os.path.join(env.REPO, rel)).read())
        except Exception:
            continue
        defined = []

        def walk(node, prefix):
            for ch in ast.iter_child_nodes(node):
                if isinstance(ch, (ast.FunctionDef, ast.AsyncFunctionDef)):
                    defined.append(prefix + ch.name)
                    walk(ch, prefix + ch.name + ".<locals>.")
                elif isinstance(ch, ast.ClassDef):
                    walk(ch, prefix + ch.name + ".")
                else:
                    walk(ch, prefix)
        walk(tree, "")
        hit = [d for d in defined if "%s:%s" % (rel, d) in entered]
        out["anchor_files"][rel] = {"functions_defined": len(defined), "functions_entered": len(hit),
                                    "never_entered": sorted(set(defined) - set(hit))[:80]}
    return out


def write_replay(prop, n, v):
    d = os.path.join(env.WORK, "replays", prop)
    os.makedirs(d, exist_ok=True)
    path = os.path.join(d, "%s_%s_%d.json" % (prop, v.get("kind", "v"), n))
    with open(path, "w") as f:
        json.dump(v, f, indent=1, default=str)
    return path


def check(prop, tier, seed):
    t0 = time.time()
    mod = _mod(prop)
    jobs = mod.jobs(tier, seed)
    for j in jobs:
        j.setdefault("prop", prop)
        j.setdefault("mod", mod.__name__)
    import shutil
    shutil.rmtree(os.path.join(env.WORK, "replays", prop), ignore_errors=True)
    results, problems = run_jobs(jobs, tier)
    m = merge(results)
    fnd = findings.open_findings(prop)
    # replay the witnesses of the open findings of this property
    known_seen = {}
    for f in fnd:
        wpath = os.path.join(env.VERIF, f["witness"])
        try:
            with open(wpath) as fh:
                w = json.load(fh)
            wj = dict(w["job"], prop=prop, mod=w["job"].get("mod", mod.__name__))
            wr, wp = run_jobs([wj], tier)
            problems.extend(wp)
            wm = merge(wr)
            m["counters"]["witness_replays"] = m["counters"].get("witness_replays", 0) + 1
            for v in wm["violations"]:
                if v.get("prop") != prop:
                    continue
                if findings.attribute(v, [f]) is not None:
                    known_seen.setdefault(f["id"], f)
                else:
                    m["violations"].append(v)
        except FileNotFoundError:
            problems.append("witness %s of finding %s missing" % (f["witness"], f["id"]))
    new = []
    saved_known = set()
    seen_keys = set()
    nknown = 0
    for v in m["violations"]:
        if v.get("prop") != prop:
            continue
        f = findings.attribute(v, fnd)
        if f is not None:
            if f["id"] not in known_seen or f["id"] not in saved_known:
                saved_known.add(f["id"])
                write_replay(prop, 0, dict(v, kind="known_%s" % f["id"]))
            known_seen.setdefault(f["id"], f)
            nknown += 1
            continue
        key = (v.get("kind"), str(v.get("subject")), tuple(v.get("cause") or ()), v.get("workload"))
        if key in seen_keys:
            continue
        seen_keys.add(key)
        new.append(v)
    nviol_total = len([v for v in m["violations"] if v.get("prop") == prop]) - nknown
    for fid, f in sorted(known_seen.items()):
        print("KNOWN-FINDING: property=%s %s: %s" % (prop, fid, f["what"]))
    lines = []
    for n, v in enumerate(new[:10]):
        path = write_replay(prop, n, v)
        lines.append("VIOLATION property=%s replay=%s" % (prop, path))
        print("VIOLATION property=%s replay=%s" % (prop, path))
        print("  kind=%s subject=%s: %s" % (v.get("kind"), v.get("subject"), str(v.get("detail"))[:400]))
    nontriv = len(m["nontrivial"])
    reach_ok = True
    if hasattr(mod, "reach"):
        why = mod.reach(m)
        if why:
            problems.append("deciding monitor not reached: %s" % why)
            reach_ok = False
    wall = time.time() - t0
    reach_map = reachmap(prop, m["sets"].pop("reach.functions", None))
    cov = dict(evaluations=m["evaluations"], distinct_nontrivial=nontriv, rule=mod.RULE,
               samples=m["samples"] or [{"note": "no sample recorded"}],
               counters={k: m["counters"][k] for k in sorted(m["counters"])},
               sets={k: sorted(v)[:60] for k, v in m["sets"].items()},
               exhaustive=bool(getattr(mod, "EXHAUSTIVE", False)),
               known_findings_seen=sorted(known_seen), known_finding_violations=nknown,
               new_violation_kinds=sorted(set(v.get("kind") for v in new)),
               verdict=("violated" if new else ("inconclusive" if problems else "held on what was observed")),
               problems=problems[:10], jobs=len(jobs), reach_map=reach_map)
    ev = dict(property_id=prop, tier=tier, seed=seed, level=mod.LEVEL, coverage=cov,
              assumptions=list(getattr(mod, "ASSUMPTIONS", [])), wall_s=round(wall, 2), violations=nviol_total)
    from ovf import evidence
    evidence.write(prop, ev)
    print("%s tier=%s seed=%d: %d evaluations, %d distinct non-trivial, %d new violation(s), %d attributed to known "
          "findings, %.1fs" % (prop, tier, seed, m["evaluations"], nontriv, len(new), nknown, wall))
    if new:
        return 1
    if problems:
        for p in problems[:3]:
            print("INCONCLUSIVE: %s" % p[-700:])
        return 2
    if nontriv < 2:
        print("INCONCLUSIVE: fewer than 2 non-trivial cases observed")
        return 2
    return 0


def replay(path):
    with open(path) as f:
        v = json.load(f)
    prop = v.get("prop")
    job = dict(v["job"], prop=prop)
    job.setdefault("mod", "ovf.props.%s" % prop.lower())
    results, problems = run_jobs([job], "quick")
    m = merge(results)
    vs = [x for x in m["violations"] if x.get("prop") == prop]
    fnd = findings.open_findings(prop)
    rc = 0
    for x in vs:
        f = findings.attribute(x, fnd)
        if f is not None:
            print("KNOWN-FINDING: property=%s %s: %s" % (prop, f["id"], f["what"]))
        else:
            print("VIOLATION property=%s replay=%s" % (prop, path))
            print("  kind=%s: %s" % (x.get("kind"), str(x.get("detail"))[:600]))
            rc = 1
    for p in problems:
        print("INCONCLUSIVE: %s" % p)
        rc = rc or 2
    if not vs and not problems:
        print("replay of %s: no violation reproduced (%d evaluations)" % (path, m["evaluations"]))
    return rc


def main(argv=None):
    ap = argparse.ArgumentParser()
    ap.add_argument("prop", nargs="?")
    ap.add_argument("--tier", default=os.environ.get("VERIF_TIER", "quick"))
    ap.add_argument("--replay")
    a = ap.parse_args(argv)
    env.setup_path()
    if a.replay:
        return replay(a.replay)
    if a.tier not in ("quick", "thorough"):
        a.tier = "quick"
    return check(a.prop.upper(), a.tier, env.seed())


if __name__ == "__main__":
    sys.exit(main())
