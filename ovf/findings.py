"""Known findings: genuine defects of the repository that are recorded rather than repaired.

A violation is attributed to a finding only if (a) it is a violation of the finding's property,
(b) its effect kind is one the finding lists and (c) the monitor attached the finding's *cause tag*
to it.  Cause tags are computed by the monitors from the case itself (definition + what the harness
reported), independently of the outcome - e.g. "an arrival reached an integer-barrier join after its
barrier had already fired", or "the engine's list-append merge model predicts exactly the observed
value while the causal rule prescribes another".  Nothing is keyed by seed, hash or random value and
this file is never written at run time.
"""
import json
import os

from ovf import env

PATH = os.path.join(env.VERIF, "known_findings.json")


def load():
    with open(PATH) as f:
        return json.load(f)


def open_findings(prop):
    return [f for f in load().get("findings", []) if f["property"] == prop and f.get("status", "open") == "open"]


def attribute(v, findings):
    causes = v.get("cause") or []
    for f in findings:
        if v.get("prop") == f["property"] and (f["kinds"] == "*" or v.get("kind") in f["kinds"]) \
                and f["cause"] in causes:
            return f
    return None
