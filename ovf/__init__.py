"""ovf - runtime-monitoring framework for StackStorm/orquesta (see /verif/DESIGN.md)."""
