"""Generic conducting workloads shared by the property checks.

conduct(job): generate definitions from seeds, skip what inspection rejects, execute each under the
provider simulator with the full monitor set, optionally with control requests / crashes / early
renders injected at seeded positions.  Returns everything the monitors observed; the property check
keeps the violations of its own property.
"""
import copy
import hashlib
import importlib
import json
import random

from ovf import env

env.setup_path()

from ovf.gen import defs  # noqa: E402
from ovf.mon import immut, items, ledger, purity, rerun, status  # noqa: E402,F401
from ovf.sim import explore, provider  # noqa: E402
from ovf.sim.provider import h64  # noqa: E402

from orquesta.specs import native as native_specs  # noqa: E402

GENS = {"dag": defs.gen_dag, "loop": defs.gen_loop}


def monitors(flags=None):
    flags = flags or {}
    ms = [ledger.Ledger(check_ctx=flags.get("ctx", True)), status.StatusMonitor(), immut.AppendOnly(),
          purity.KeyScan(), items.ItemsMonitor(), items.ArrivalAtRunningItems(), items.RearrivalAtRunningTask(),
          rerun.RerunMon()]
    if flags.get("double_poll", True):
        ms.append(purity.DoublePoll())
    return ms


def mon(run, name):
    for m in run.monitors:
        if m.name == name:
            return m
    return None


def digest(x):
    return hashlib.sha256(json.dumps(x, sort_keys=True, default=str).encode()).hexdigest()[:16]


def gen_case(job, seed):
    rng = random.Random("%s/%s" % (job.get("gseed", 0), seed))
    g = job.get("gen", "dag")
    if g == "shape":
        # exhaustive family of small shapes: the case number IS the index (n = 4), or a hashed sample of the family (n = 5)
        n = job.get("shape_n", 4)
        idx = seed if not job.get("shape_sample") else rng.randrange(len(defs.shape_family(n)))
        return defs.gen_shape(idx, n, literal=bool(job.get("shape_literal")))
    if g == "chain":
        return defs.gen_chain(seed)
    if g == "remloop":
        return defs.gen_remloop(seed)
    if g == "mcycle":
        return defs.gen_mcycle(seed)
    if g == "cmds":
        return defs.gen_cmds(seed)
    if g == "rwait":
        return defs.gen_rwait(seed)
    if g == "cshape":
        n = job.get("shape_n", 4)
        idx = seed if not job.get("shape_sample") else rng.randrange(len(defs.cshape_family(n)))
        return defs.gen_cshape(idx, n)
    if g == "mix":
        g = "loop" if rng.random() < job.get("p_loop", 0.3) else "dag"
    m, inputs = GENS[g](rng, job.get("P"))
    return m, inputs


def inspect_ok(wf):
    spec = native_specs.WorkflowSpec(copy.deepcopy(wf))
    return not spec.inspect()


class Injector(object):
    """seeded insertion of control requests, crashes and early renders into a free run"""

    def __init__(self, seed, ctl):
        self.rng = random.Random(seed)
        self.ctl = ctl or {}
        self.n = 0

    def mid(self, run):
        """status request (or None) landing between a poll's answer and the provider's acknowledgements"""
        c = self.ctl
        if c.get("mid_req") and self.rng.random() < c["mid_req"] and self.n < c.get("max_req", 4):
            self.n += 1
            return self.rng.choice(c.get("reqs") or ["pausing", "paused", "canceling"])
        return None

    def __call__(self, run, phase):
        c = self.ctl
        r = self.rng
        st = run.status()
        if phase == "after_done" and c.get("early_render") and st in provider.COMPLETED and r.random() < c["early_render"]:
            run.render()
        if phase == "after_poll" and c.get("mid_req") and st == "paused" and run.inflight and r.random() < 0.5:
            # resume right after a pause that raced with the provider starting its offers
            run.request(r.choice(["resuming", "running"]))
        if phase in ("before_poll", "after_done"):
            if c.get("crash") and r.random() < c["crash"]:
                run.crash()
            if c.get("req") and r.random() < c["req"] and self.n < c.get("max_req", 4):
                self.n += 1
                choices = c.get("reqs") or ["pausing", "paused", "canceling", "canceled", "resuming", "running"]
                run.request(r.choice(choices))


def conduct(job):
    prop = job["prop"]
    pmod = importlib.import_module(job["mod"])
    nontriv_fn = getattr(pmod, "nontrivial", None)
    out = dict(evaluations=0, nontrivial=set(), violations=[], samples=[], counters={}, sets={})
    C = out["counters"]

    def cnt(k, n=1):
        C[k] = C.get(k, 0) + n

    only = job.get("only")
    seeds = [only[0]] if only else range(job["lo"], job["hi"])
    for seed in seeds:
        m, inputs = gen_case(job, seed)
        wf = m.render()
        if not inspect_ok(wf):
            cnt("definitions_rejected_by_inspection")
            continue
        cnt("definitions")
        for sched in range(job.get("scheds", 2)):
            if only and sched != only[1]:
                continue
            lazy = job.get("lazy", [0, 40])[sched % len(job.get("lazy", [0, 40]))]
            ms = monitors(job.get("flags"))
            case = dict(wf=wf, inputs=inputs, oseed=h64(job.get("gseed", 0), seed, "o") % 100000,
                        p_fail=job.get("p_fail", 0.2), exotic=job.get("exotic", 0.0), exotic_kinds=job.get("exotic_kinds"))
            ack = job.get("ack_chain")
            run = explore.make_run(case, ms, model=m, ack_chain=(ack if ack in ("lazy", "mixed") else bool(ack) and sched % 2 == 1))
            hook = Injector(h64(job.get("gseed", 0), seed, sched, "inj"), job.get("ctl")) if job.get("ctl") else None
            pol = explore.Policy(pseed=h64(job.get("gseed", 0), seed, sched, "p"), lazy_pct=lazy)
            if hook is not None and (job.get("ctl") or {}).get("mid_req"):
                run.mid_poll_hook = hook.mid
            explore.run_free(run, pol, hook=hook)
            if (job.get("ctl") or {}).get("rerun") and run.status() == "failed" and not run.inflight \
                    and h64(seed, sched, "rr") % 100 < 100 * job["ctl"]["rerun"]:
                # default rerun of a failed workflow; every action succeeds from here on
                ev = run.rerun(None)
                if ev["exc"] is None:
                    run.outcomes.force = lambda a: ("succeeded", None)
                    explore.run_free(run, pol, hook=hook, start=False)
            run.finish()
            out["evaluations"] += 1
            collect(out, job, run, m, (seed, sched), nontriv_fn)
    return out


def collect(out, job, run, m, ident, nontriv_fn=None, extra=None):
    C = out["counters"]

    def cnt(k, n=1):
        C[k] = C.get(k, 0) + n

    prop = job["prop"]
    cnt("api_calls", run.ncalls)
    cnt("offers", len(run.offers))
    cnt("completions", len([op for op in run.script if op[0] == "done"]))
    cnt("polls", len([op for op in run.script if op[0] == "poll"]))
    cnt("requests", len([op for op in run.script if op[0] == "req"]))
    cnt("crashes", run.counters.get("crashes", 0))
    cnt("read_only_queries", run.counters.get("query_noise", 0))
    if run.counters.get("query_noise_exc"):
        cnt("read_only_queries_raised", run.counters["query_noise_exc"])
    cnt("final_" + run.status())
    if run.notes.get("max_steps"):
        cnt("runs_cut_at_step_limit")
    for mm in run.monitors:
        st = getattr(mm, "stats", None)
        if isinstance(st, dict):
            for k, v in st.items():
                if isinstance(v, (int, float)) and not isinstance(v, bool):
                    if k.startswith("max_"):
                        C[mm.name + "." + k] = max(C.get(mm.name + "." + k, 0), v)
                    else:
                        cnt(mm.name + "." + k, v)
                elif isinstance(v, set):
                    out["sets"].setdefault(mm.name + "." + k, set()).update(v)
    led = mon(run, "ledger")
    if led is not None and led.stopped:
        cnt("ledger_stopped")
    if m is not None:
        out["sets"].setdefault("tags", set()).update(m.tags)
    if nontriv_fn is None or nontriv_fn(run, m):
        out["nontrivial"].add(digest([run.wf, run.script]))
    for v in run.violations:
        rl = (job.get("relabel") or {}).get(v["kind"])
        if rl:
            v["prop"], v["kind"] = rl
    mine = [v for v in run.violations if v["prop"] == prop]
    other = [v for v in run.violations if v["prop"] != prop]
    for v in other:
        cnt("other_property_signals." + v["prop"])
    for v in mine:
        v = dict(v)
        v["workload"] = job.get("name", job.get("fn"))
        v["origin"] = dict({k: job[k] for k in job if k not in ("lo", "hi", "case")}, only=list(ident))
        v["job"] = dict(fn="replay_case", mod=job["mod"], prop=prop, name=job.get("name", job.get("fn")),
                        flags=job.get("flags"), relabel=job.get("relabel"), case=export_case(run, m))
        v["wf"] = run.wf
        v["inputs"] = run.inputs
        v["script"] = run.script
        v["trace"] = [list(map(str, t)) for t in run.trace][-80:]
        v["final_status"] = run.status()
        if extra:
            v.update(extra)
        out["violations"].append(v)
    if len(out["samples"]) < 2 and (nontriv_fn is None or nontriv_fn(run, m)) and len(run.script) < 60:
        out["samples"].append(dict(definition=run.wf, inputs=run.inputs, history=run.script,
                                   final_status=run.status(), output=run.c.get_workflow_output(),
                                   monitor_verdict="%d violation(s) of %s" % (len(mine), prop),
                                   observed=[list(map(str, t)) for t in run.trace][:60]))


def export_case(run, m):
    return dict(wf=run.wf, inputs=run.inputs, oseed=run.outcomes.seed, p_fail=run.outcomes.p_fail, exotic=run.outcomes.exotic, exotic_kinds=run.outcomes.exotic_kinds,
                overrides=run.outcomes.overrides, script=run.script, model=(m.to_json() if m is not None else None),
                ack_chain=run.ack_chain)


def replay_case(job):
    """re-execute one explicit case (definition, inputs, outcomes, history script) under the monitors"""
    pmod = importlib.import_module(job["mod"])
    nontriv_fn = getattr(pmod, "nontrivial", None)
    out = dict(evaluations=0, nontrivial=set(), violations=[], samples=[], counters={}, sets={})
    case = job["case"]
    m = defs.Model.from_json(case["model"]) if case.get("model") else None
    extra = getattr(pmod, "extra_monitors", lambda: [])()
    run = explore.make_run(case, monitors(job.get("flags")) + extra, model=m, ack_chain=case.get("ack_chain", False))
    explore.play_script(run, case["script"])
    run.finish()
    out["evaluations"] += 1
    collect(out, job, run, m, (0, 0), nontriv_fn)
    return out


CORPUS_DIR = "orquesta/tests/fixtures/workflows/native"


def _int_join_smaller_than_fan_in(wf):
    """static zone predicate of finding F1 for definitions that have no Model"""
    tasks = wf.get("tasks") or {}
    fan = {}
    for nm, t in tasks.items():
        for tr in t.get("next") or []:
            do = tr.get("do") or []
            if isinstance(do, str):
                do = [x.strip() for x in do.split(",")]
            for d in set(do):
                fan.setdefault(d, set()).add(nm)
    for nm, t in tasks.items():
        j = t.get("join")
        if isinstance(j, int) and not isinstance(j, bool) and len(fan.get(nm, ())) > j:
            return True
    return False


def corpus(job):
    """the repository's own fixture definitions as realistic shapes, with generated outcomes, schedules and control
    requests; no Model exists for them, so only the state-independent monitors decide (status, quiescence,
    terminal, append-only, double poll, with-items window)"""
    import glob
    import os

    import yaml
    pmod = importlib.import_module(job["mod"])
    nontriv_fn = getattr(pmod, "nontrivial", None)
    out = dict(evaluations=0, nontrivial=set(), violations=[], samples=[], counters={}, sets={})
    C = out["counters"]
    files = sorted(glob.glob(os.path.join(env.REPO, CORPUS_DIR, "*.yaml")))
    for fi, f in enumerate(files):
        if fi % job.get("parts", 1) != job.get("part", 0):
            continue
        with open(f) as fh:
            wf = yaml.safe_load(fh)
        try:
            if not inspect_ok(wf):
                C["corpus_rejected"] = C.get("corpus_rejected", 0) + 1
                continue
        except Exception:
            C["corpus_unloadable"] = C.get("corpus_unloadable", 0) + 1
            continue
        if _int_join_smaller_than_fan_in(wf):
            C["corpus_in_finding_zone_skipped"] = C.get("corpus_in_finding_zone_skipped", 0) + 1
            continue
        C["corpus_definitions"] = C.get("corpus_definitions", 0) + 1
        out["sets"].setdefault("corpus_files", set()).add(os.path.basename(f))
        for k in range(job.get("runs", 4)):
            seed = h64(job.get("gseed", 0), os.path.basename(f), k)
            ms = [m for m in monitors(job.get("flags")) if m.name != "ledger"]
            case = dict(wf=wf, inputs={}, oseed=seed % 100000, p_fail=[0.0, 0.15, 0.3][k % 3])
            run = explore.make_run(case, ms, model=None, label=os.path.basename(f))
            hook = Injector(seed, job.get("ctl")) if job.get("ctl") and k % 2 else None
            explore.run_free(run, explore.Policy(pseed=seed, lazy_pct=[0, 40][k % 2]), hook=hook, max_steps=150, max_offers=200)
            run.finish()
            out["evaluations"] += 1
            collect(out, job, run, None, (fi, k), nontriv_fn)
    return out


def suite_under_monitors(job):
    """run the repository's own tests with the state-independent monitors installed (pytest plugin)"""
    import os
    import subprocess
    import sys
    out = dict(evaluations=0, nontrivial=set(), violations=[], samples=[], counters={}, sets={})
    env.ensure_dirs()
    res = os.path.join(env.WORK, "plugin_%d.json" % os.getpid())
    e = dict(os.environ, PYTHONPATH=env.VERIF + os.pathsep + env.REPO, OVF_PLUGIN_OUT=res, PYTHONDONTWRITEBYTECODE="1")
    p = subprocess.run([sys.executable, "-B", "-m", "pytest", "-q", "-p", "no:cacheprovider", "-p", "ovf.pytest_plugin", "--timeout=900",
                        "orquesta/tests/unit/conducting", "orquesta/tests/unit/specs", "orquesta/tests/unit/expressions"],
                       cwd=env.REPO, env=e, stdout=subprocess.PIPE, stderr=subprocess.STDOUT, timeout=1800)
    if not os.path.exists(res):
        raise RuntimeError("pytest plugin wrote no result: %s" % p.stdout.decode(errors="replace")[-600:])
    with open(res) as f:
        st = json.load(f)
    os.remove(res)
    C = out["counters"]
    C["suite_api_calls_monitored"] = st["api_calls"]
    C["suite_state_pairs_compared"] = st["pairs"]
    C["suite_purity_checks"] = st["purity_checks"]
    C["suite_exitstatus"] = st.get("exitstatus", -1)
    out["evaluations"] = 1
    out["nontrivial"].add("suite-under-monitors")
    for v in st["violations"]:
        if v["prop"] == job["prop"]:
            out["violations"].append(dict(v, subject="suite", cause=None, workload="suite-under-monitors", job=dict(job)))
    return out
